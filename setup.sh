#!/bin/sh
# setup_cmd: offline; parse every TLA+ module with SANY and create output dirs
cd "$(dirname "$0")" || exit 2
mkdir -p evidence replays
exec /venv/bin/python harness/setup_check.py
