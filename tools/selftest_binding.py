#!/venv/bin/python
"""Binding demonstration (guidance: 'corrupt one recorded field and show the trace is rejected').
For each trace specification: a handful of events recorded from the REAL code are accepted, and the same
events with one field corrupted are rejected with the expected clause.  Exit 0 iff every expectation holds."""
import copy
import os
import random
import sys

HERE = os.path.dirname(os.path.dirname(os.path.abspath(__file__)))
sys.path.insert(0, HERE)
os.environ.setdefault("OMP_NUM_THREADS", "1")
from harness import trace  # noqa
from harness.common import import_mir_eval  # noqa
from harness.props import C05, C13, C10  # noqa
from harness.relations import RelLog, call  # noqa
import numpy as np  # noqa

me = import_mir_eval()
rng = random.Random(5)
ok = True


def expect(name, rejects, want_clause_part, tid=None):
    global ok
    hit = [r for r in rejects if want_clause_part in r["clause"] and (tid is None or r["tid"] == tid)]
    print("%-58s %s" % (name, "rejected as expected: " + hit[0]["clause"] if hit else "NOT REJECTED  <-- binding failure"))
    ok = ok and bool(hit)


def expect_clean(name, rejects):
    global ok
    print("%-58s %s" % (name, "accepted" if not rejects else "REJECTED %s" % rejects[:2]))
    ok = ok and not rejects


# Trace_C05: recorded matchings and algorithm phase snapshots
ev = C05.algo_events(me, rng, 300, 7)
ev = [e for e in ev if e["snaps"]][:5] + [e for e in ev if len(e["m"]) >= 2][:5]
for k, e in enumerate(ev):
    e["tid"] = k + 1
r, _ = trace.validate("Trace_C05", ev)
expect_clean("Trace_C05: recorded algorithm runs", r)
bad = copy.deepcopy(ev)
bad[0]["snaps"][0] = bad[0]["snaps"][0][:-1]            # drop a pair from the greedy state: no longer maximal / loses a vertex
bad[5]["m"] = bad[5]["m"][:-1]                          # truncate a returned matching
r, _ = trace.validate("Trace_C05", bad)
expect("Trace_C05: pair removed from a phase snapshot", r, "", tid=1)
expect("Trace_C05: returned matching truncated", r, "not-maximum", tid=6)

# Trace_C13: adjust_intervals result with one label changed / one boundary moved
inp = {"ivs": [[0, 2], [2, 5]], "labs": ["a", "b"], "tmin": 1, "tmax": 7}
res = C13.execute(me, "adjust", inp)
e0 = C13.to_event(1, "adjust", inp, res)
r, _ = trace.validate_par("Trace_C13", [e0], workers=1)
expect_clean("Trace_C13: recorded adjust_intervals result", r)
e1 = copy.deepcopy(e0); e1["res"]["labs"][0] = "b"
e2 = copy.deepcopy(e0); e2["tid"] = 2; e2["res"]["ivs"][0][1] = 3; e2["res"]["ivs"][1][0] = 3
r, _ = trace.validate_par("Trace_C13", [e1, e2], workers=1)
expect("Trace_C13: label of a result interval changed", r, "label-function-changed", tid=1)
expect("Trace_C13: boundary of the result moved", r, "label-function-changed", tid=2)

# Trace_C10: outcome of encode corrupted
o = C10.observe(me, "G:min7/b3"); o["tid"] = 1; del o["s"]
r, _ = trace.validate_par("Trace_C10", [o], workers=1)
expect_clean("Trace_C10: recorded encode('G:min7/b3')", r)
o2 = copy.deepcopy(o); o2["ff"]["bits"][4] = 1
o3 = copy.deepcopy(o); o3["tid"] = 2; o3["validate"] = "InvalidChordException"
r, _ = trace.validate_par("Trace_C10", [o2, o3], workers=1)
expect("Trace_C10: one bit of the recorded bitmap flipped", r, "encoding-differs", tid=1)
expect("Trace_C10: recorded acceptance flipped", r, "validate", tid=2)

# Trace_Rel: swap relation with P and R not exchanged
log = RelLog()
a, b = np.array([1.0, 2.0, 3.0]), np.array([1.0, 2.5])
log.add("swap", "onset.f_measure", call(me.onset.f_measure, a, b, window=0.25), call(me.onset.f_measure, b, a, window=0.25), {})
r, _ = log.judge()
expect_clean("Trace_Rel: recorded f(a,b), f(b,a) of onset.f_measure", [{"clause": x[2]} for x in r])
log2 = RelLog()
log2.add("swap", "onset.f_measure", call(me.onset.f_measure, a, b, window=0.25), call(me.onset.f_measure, a, b, window=0.25), {})
r, _ = log2.judge()
expect("Trace_Rel: second outcome NOT swapped", [{"clause": x[2], "tid": 1} for x in r], "biteq")
# Trace_C05 kind "velocity": recorded transcription_velocity.match_notes calls; one kept pair dropped / one rejected pair added
vev = [e for e in C05.record_traces(me, random.Random(11), 120, 6) if e["kind"] == "velocity" and len(e["inner"]) >= 2]
keep = [e for e in vev if 0 < len(e["m"]) < len(e["inner"])][:4] or vev[:4]
for k, e in enumerate(keep):
    e["tid"] = k + 1
    e.setdefault("snaps", [])
r, _ = trace.validate("Trace_C05", keep)
expect_clean("Trace_C05/velocity: recorded velocity matchings", r)
bad = copy.deepcopy(keep)
bad[0]["m"] = bad[0]["m"][:-1]                                                  # a pair within tolerance is missing from the result
if len(bad) > 1:
    extra = [p_ for p_ in bad[1]["inner"] if p_ not in bad[1]["m"]]
    bad[1]["m"] = bad[1]["m"] + extra[:1]                                       # a pair outside the tolerance was kept
    bad[1]["count"] = len(bad[1]["m"])
bad[0]["count"] = len(bad[0]["m"])
r, _ = trace.validate("Trace_C05", bad)
expect("Trace_C05/velocity: kept pair removed", r, "velocity-hit-dropped", tid=1)
if len(bad) > 1 and extra:
    expect("Trace_C05/velocity: rejected pair added", r, "velocity-miss-kept", tid=2)

# Trace_C11: the twelve rule values recorded for a real label pair; one value corrupted so that a stricter rule no longer
# implies the looser one / the ignored flag depends on the estimate
from harness.props.C11 import RULES  # noqa
fns = [getattr(me.chord, r_) for r_ in RULES]
refl, ests = "G:maj7", ["G:maj7/3", "G:maj", "E:min7", "N"]
cols = [fn([refl] * (len(ests) + 1), [refl] + ests) for fn in fns]
vals = [[int(col[k]) for col in cols] for k in range(len(ests) + 1)]
e0 = {"tid": 1, "self": vals[0], "vals": vals[1:]}
r, _ = trace.validate_par("Trace_C11", [e0], workers=1)
expect_clean("Trace_C11: recorded rule values of ('G:maj7', ...)", r)
e1 = copy.deepcopy(e0)
e1["vals"][1][RULES.index("thirds")] = 0              # triads still 1: triads => thirds broken
e2 = copy.deepcopy(e0); e2["tid"] = 2
e2["vals"][3][RULES.index("root")] = -1               # ignored for one estimate only
r, _ = trace.validate_par("Trace_C11", [e1, e2], workers=1)
expect("Trace_C11: 'thirds' value of one pair zeroed", r, "stricter-rule-does-not-imply-looser", tid=1)
expect("Trace_C11: -1 for one estimate only", r, "ignored-depends-on-the-estimate", tid=2)

print("BINDING SELF-TEST", "PASSED" if ok else "FAILED")
sys.exit(0 if ok else 1)
