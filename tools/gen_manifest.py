#!/venv/bin/python
"""Regenerate /verif/MANIFEST.json from the table below (one entry per property that has a check;
every other property is listed under not_applicable with the reason)."""
import json
import os

HERE = os.path.dirname(os.path.dirname(os.path.abspath(__file__)))
BASE = ("cd /repo && /venv/bin/python -m pytest -ra -q -p no:cacheprovider --timeout=900 "
        "--continue-on-collection-errors")

TB = ("Trusted: TLC/SANY and the Json/IOUtils community modules; CPython/NumPy/SciPy as installed; the harness "
      "renderers (lattice integer -> exact double, tokens -> string) and sys.monitoring. Exhaustive only inside the "
      "stated model bounds; beyond them sampled + certified executions.")

CHECKS = {
    "C05": dict(
        technique="TLA+ spec (Matching/Hits) + TLC exhaustive enumeration replayed into the code; recorded "
                  "matchings certified by a TLA+ trace spec (Berge certificate)",
        text="TLC enumerates every bipartite graph (3x4 quick, 4x5 thorough) and every event/chroma/note list pair on "
             "an exact lattice with all parameter combinations, computing feasibility graphs from the documented "
             "predicates and the maximum size by definition; every row is replayed into _bipartite_match (3 vertex/"
             "adjacency orders), match_events, compute_num_true_positives, match_notes/onsets/offsets and the "
             "velocity variant. The algorithm itself is a TLA+ state machine (greedy + phases) model-checked for all "
             "graphs and its phase snapshots are traced from the real run. Matchings recorded from larger random runs of the "
             "metric functions AND from windows of the repository's own beat/onset/note/multipitch fixtures are certified in "
             "TLC; recorded velocity-aware matchings are judged against Velocity.tla.",
        ref="4/C05"),
    "C13": dict(
        technique="TLA+ semantic spec of interval pre-processing (Intervals.tla); TLC generates every bounded input, "
                  "the code's results are judged by a TLA+ trace spec (Trace_C13)",
        text="Six TLC generators enumerate every time-ordered labelled interval list (<=3 intervals on a 7-point "
             "lattice, gaps allowed) with every t_min/t_max (each coincidence with a boundary, inside, beyond), all "
             "pairs of contiguous segmentations, sample grids and event lists; TLC checks that the constructive reading "
             "of the documentation satisfies the semantic verdict; each input is run on the real function and the "
             "result is judged in TLC (positive durations, begins/ends at the range, label of every instant preserved, "
             "duration conserved, later interval at shared boundaries). Larger random annotations and the adjust/merge "
             "calls recorded inside segment/chord.evaluate are judged the same way.",
        ref="4/C13"),
    "C15": dict(
        technique="TLA+ session specification (heap'=heap, outcome a function of the call); TLC-enumerated call "
                  "histories executed on the code; every recorded call judged by a TLA+ trace spec",
        text="Session.tla states purity and repeatability for every call; TLC enumerates all histories (length <=2 over 15 "
             "entry-point letters x aliasing) which are executed on the real library with an external recorder "
             "(sys.monitoring) on every function of all 16 modules, each call under two fillings of numpy.empty, plus long "
             "seeded random histories (all tasks, util, sonify, separation; forward and reversed). Every call of a public "
             "function, top-level or nested, yields a record (argument digests before/after, call key, outcome digest); "
             "Trace_Session rejects argument-modified and same-call-different-outcome.",
        ref="4/C15"),
    "C10": dict(
        technique="TLA+ grammar recogniser + encoding specification (Chord.tla); TLC enumerates label ASTs, replayed "
                  "into the code; fuzzed strings judged by a TLA+ trace spec",
        text="Chord.tla holds a recursive-descent recogniser for root[:shorthand][(degrees)][/bass]|N|X over a token "
             "alphabet and the encoding defined from degree lists. TLC enumerates ASTs (35 root spellings; every shorthand x "
             "every single degree edit x basses; pairs of edits), checks well-formedness, strict-only-rejects and "
             "Parse o Tokens = id, and exports the specified encodings for the 4 flag settings; each is rendered and run "
             "through validate/split/join/encode/encode_many. Hostile and mutated strings are executed and judged by "
             "Trace_C10 (acceptance = recogniser, value = encoder, only ok/InvalidChordException allowed, round trip).",
        ref="4/C10"),
    "C11": dict(
        technique="TLA+ specification of the 12 comparison rules on encodings; TLC checks the lattice on every label pair "
                  "and exports the values, replayed into the code",
        text="MC_C11 enumerates every pair of a structured label family (N, X, all shorthands x basses, single degree "
             "additions/omissions; 354 x 39 labels quick, 354 x 354 thorough) x root offsets; TLC checks on the specification "
             "of each pair: values in {-1,0,1}, all documented implications, -1 a function of the reference alone, "
             "self-comparison never 0; the 12 specified values per pair are compared with the 12 public functions called in "
             "shuffled mixed batches and singly. The lattice is additionally judged by a TLA+ trace spec (Trace_C11) on the values recorded for the real label pairs of the repository's chord fixtures.",
        ref="4/C11"),
    "C09": dict(
        technique="TLA+ transposition/respelling invariance checked by TLC on chord and key specifications and replayed; "
                  "pitch-scaling relations on recorded outcome pairs judged by a TLA+ trace spec (Relations.tla)",
        text="Chords: label pairs x 12 transpositions x 3 spelling policies, invariance checked by TLC on the rule "
             "specification and replayed; chord.evaluate on transposed annotations must be bit-identical. Keys: the whole "
             "domain (52 keys squared x 12 transpositions x all spellings) by TLC on the relationship table and replayed. "
             "Melody/multipitch/notes: joint octave scaling (bit-identical), 2^(j/12) (1e-9), estimate-only octave (chroma), "
             "sign flip, with non-default base_frequency/cent_tolerance; outcome pairs judged by Trace_Rel.",
        ref="4/C09"),
    "C12": dict(
        technique="TLA+ stage machine of chord.evaluate (ChordEval.tla) with a Split action, model-checked and replayed stage "
                  "by stage; rescale/split relations judged by a TLA+ trace spec",
        text="MC_C12 runs every pair of small chord annotations through the stage machine Adjust -> MergeChords x2 -> "
             "MergeLabeled -> Durations -> Compare x12 -> WeightedAccuracy -> Segmentation, then cuts one interval (either "
             "side, every interior lattice point) and re-evaluates: TLC checks no score changes, ranges, conserved duration. "
             "Every exported state is replayed stage by stage into the public functions and into chord.evaluate. "
             "weighted_accuracy rescaling/all-ones/all-zeros and split invariance (fine, off-grid cuts) of chord.evaluate, the "
             "six frame-based segment scores and hierarchy.lmeasure are judged by Trace_Rel.",
        ref="4/C12"),
    "C06": dict(
        technique="TLA+ swap-symmetry invariants model-checked on matching and contingency definitions; recorded "
                  "f(a,b)/f(b,a) outcome pairs judged by a TLA+ trace spec against Relations!SwapSpec",
        text="TLC checks on every enumerated input that the maximum-matching size is symmetric under exchange of the sides "
             "(MC_C05_events) and that the contingency table transposes, pairwise P/R exchange and Rand/ARI are symmetric "
             "(MC_C16). For the 19 functions of Relations!SwapSpec the harness calls f(a,b) and f(b,a) on seeded inputs of "
             "UNEQUAL sizes incl. exact-threshold distances; Trace_Rel decides from the table which positions exchange / stay, "
             "bit-identical or to 1e-9.",
        ref="4/C06, App. C"),
    "C07": dict(
        technique="TLA+ monotonicity invariants over all ordered tolerance pairs model-checked on the definitions; recorded "
                  "tighter/looser outcome pairs judged by a TLA+ trace spec against Relations!MonoSpec",
        text="MC_C07 checks for every lattice input and every ordered pair t1<=t2 of each tolerance (event window, chroma "
             "window, note onset/pitch/offset-ratio/min-tolerance, strict) that feasible pairs only grow and the maximum "
             "matching never shrinks; MC_C05_notes checks the nesting of criteria. On the code, every function of "
             "Relations!MonoSpec is evaluated under all ordered pairs of a per-parameter lattice (incl. exact distances and "
             "decimal near-threshold times), strict vs non-strict, and 20 documented nested pairs; Trace_Rel judges.",
        ref="4/C07, App. C"),
    "C08": dict(
        technique="TLA+ shift/permute/relabel invariants model-checked on the definitions; recorded before/after outcome "
                  "pairs judged by a TLA+ trace spec",
        text="MC_C08 checks on every lattice input that shifting both sides leaves event/note feasibility graphs and all "
             "chord.evaluate scores unchanged and that permuting notes preserves the maximum matching; MC_C16 checks label "
             "bijections on the clustering indices. On the code, seeded dyadic-lattice inputs of beat (7 functions), onset, "
             "transcription(+velocity), multipitch, alignment, pattern, chord are shifted by dyadic offsets (bit-identical "
             "results required); notes, in-frame frequencies, the two estimated tempi and the reference pattern list are "
             "permuted; segment/hierarchy labels renamed by order-reversing, case-changing bijections; Trace_Rel judges.",
        ref="4/C08, App. C"),
    "C02": dict(
        technique="TLA+ Copy invariants (SelfMatch, PerfectEstimate, PerfectWhenSame, SelfPerfect) model-checked on the "
                  "definitions; recorded metric(x, copy x) outcomes judged by a TLA+ trace spec against Relations!PerfectSpec",
        text="TLC checks on every enumerated input that a copy of the reference is matched completely, scores 1 on all chord "
             "rules/segmentation scores, has pairwise/Rand/ARI 1 and key score 1. On the code, seeded non-degenerate "
             "annotations of all 13 tasks are scored against a deep copy and against the very same objects through every "
             "evaluate() and metric function (46 function entries); Trace_Rel compares each position with the optimum table. "
             "MC_C04_melk's SelfPerfect invariant (melody pre-processing under every resampling option) holds exactly outside "
             "one input class that TLC found - a recorded finding.",
        ref="4/C02"),
    "C01": dict(
        technique="TLA+ range invariants model-checked on the definitional models; every returned score of the code "
                  "classified by a TLA+ trace spec (table of score kinds)",
        text="TLC checks the range invariants of MC_C16 (pairwise, Rand, ARI), MC_C12 (15 chord scores), MC_Key and MC_C05 "
             "(hits <= min(n,m)) on every enumerated input. On the code, all evaluate() and metric functions of the 13 tasks "
             "run on seeded valid inputs of every degenerate shape with default and in-range non-default parameters; "
             "Trace_Range holds the table fn -> kind per result position (prop, bin, chance, err, dev, pscore, aor, fin) and "
             "rejects any value outside its kind's range or of wrong arity; violations carry an input-class tag so that the "
             "recorded findings stay specific.",
        ref="4/C01"),
    "C03": dict(
        technique="TLA+ routing table of every evaluate() (Bundle.tla); TLC enumerates all keyword subsets; replayed "
                  "key-by-key, bit-identically, against table-driven direct calls",
        text="Bundle.tla fixes per task the key sequence and, per key, the public function, result position and forced "
             "parameters; Params(fn) the documented signatures. MC_C03 enumerates every subset (<=2 quick, <=4 thorough) of each "
             "task's keyword pool incl. unrelated and near-miss names and checks forced-wins / reaches-exactly / near-miss-inert. "
             "Per subset and seeded input (incl. empty sides) evaluate()'s key sequence, scalar-ness and every value "
             "(bit-identical) are compared with fn(pre(x), **effective)[pos] computed through the public stage functions.",
        ref="4/C03, App. D"),
    "C14": dict(
        technique="TLA+ validity catalogue (valid shapes; fault -> entry points -> exception class) enumerated by TLC and "
                  "executed on the code",
        text="Validity.tla lists, per task, the valid shapes (empty sides, single items, duplicates, estimates starting "
             "earlier/later or running longer, boundaries coinciding with the reference's start/end, one-frame tracks, "
             "window == frame_size, optional melody arrays with late-starting time bases) and 93 single faults with the entry "
             "points documented to check them and the exception class. Every valid shape is run through every entry point of "
             "the task (must return); every fault through its entry points (must raise exactly ValueError / "
             "InvalidChordException).",
        ref="4/C14, App. E",
        category="fault_enumeration"),
    "C16": dict(
        technique="TLA+ clustering-index definitions in two formulations checked equal by TLC; exported contingency tables "
                  "and exact rationals replayed into the code",
        text="SegmentCluster.tla samples frames (later interval at a boundary, case-insensitive), builds the contingency table "
             "and defines pairwise P/R, Rand, ARI by frame-pair counting AND by binomial closed forms; MC_C16 enumerates every "
             "pair of labelled segmentations (<=3 segments, labels incl. case variants) x frame sizes and checks formulation "
             "agreement, swap symmetry, perfect-when-same, relabel invariance, ranges. Rows are replayed into pairwise, "
             "rand_index, ari, mutual_information (MI/AMI/NMI), nce (both normalisations) and vmeasure with random beta; the "
             "entropy-based values are textbook evaluations (math.log, exact hypergeometric weights) of the spec's table; "
             "vmeasure must be identical to nce(marginal=True). MC_C16_eval composes segment.evaluate (alignment by "
             "Intervals!AdjustSpec, detection @0.5/@3, deviation, frame clustering) and all 21 entries are replayed.",
        ref="4/C16"),
    "C17": dict(
        technique="TLA+ triplet-ranking definition of T-/L-measure model-checked and replayed as exact rationals",
        text="Hierarchy.tla defines frame-pair depth and precision/recall as the mean over query frames with a reference "
             "triple of the fraction of window triples ranked strictly in the same order (reduced / full). MC_C17 enumerates "
             "all pairs of small hierarchies (1-2 levels, nested or not) x windows x modes for T (18,816 rows quick) and "
             "labelled pairs x frame sizes for L; TLC checks ranges and self-perfection; exact rationals are compared to 1e-9 "
             "with tmeasure/lmeasure (random beta), frame-size variants of one pair back to back. MC_C17_eval composes "
             "hierarchy.evaluate (per-level alignment of late-starting / early- or late-ending estimate levels, then the "
             "three measures) and is replayed.",
        ref="4/C17"),
    "C18": dict(
        technique="TLA+ definition of multipitch resampling, per-frame maximum matchings and the 14 scores; identities "
                  "model-checked; rows replayed; identities re-checked by a TLA+ trace spec on recorded outcomes",
        text="Multipitch.tla defines nearest-frame resampling (empty outside the estimate's range), raw and chroma "
             "per-frame true positives as maximum matchings and all 14 scores as rationals. MC_C18 enumerates every pair of "
             "small ragged inputs x {same, late, early} estimate time bases x windows and checks E_tot = E_sub+E_miss+E_fa, "
             "errors >= 0, Acc <= min(P,R), TP <= min(#ref,#est), chroma TP >= raw TP. Rows are replayed into "
             "resample_multipitch, compute_num_true_positives, metrics and evaluate (exact rationals, 1e-9); outcomes of "
             "larger seeded inputs are judged by Trace_C18.",
        ref="4/C18"),
    "C20": dict(
        technique="TLA+ per-line machine of the loaders (IO.tla) enumerated by TLC over all small files; rendered files "
                  "loaded by the code and compared bit by bit",
        text="IO.tla specifies load_delimited as a per-line machine (comment, row, too few / extra fields, unparsable number, "
             "blank; last column takes the rest of the line) with the eight loader schemas and the one-data-line rule of "
             "key/tempo. MC_C20 enumerates every file of <=3 (4) lines over 7 line kinds x 8 loaders (3,200 files quick) and "
             "checks the machine sound. Each file is rendered with seeded float literals (exponents, negatives, subnormals) "
             "and labels (internal blanks, tabs, unicode, commas) under 4 delimiter classes, loaded from a path and a file "
             "object: structure, order, bit-identical floats, exact strings, ValueError naming the first offending row, "
             "warnings for convention violations; ragged series and pattern files round-trip.",
        ref="4/C20"),
    "C04": dict(
        technique="TLA+ definitions of the scores on integer lattices with exact rational results (Metrics.tla, Key.tla, "
                  "Multipitch.tla); TLC enumerates each domain; rows replayed into the code",
        text="Metrics.tla defines hit-based P/R/F through maximum matchings (onset, beat F, boundary detection with trim, note "
             "criteria with onset-only/offset-only variants), boundary deviations, tempo P-score and hit flags, alignment "
             "median/mean error, percentage correct and both PCS variants, and the five melody measures with continuous voicing; "
             "MC_Key covers the whole key domain. MC_C04 enumerates six lattice domains with all parameter combinations "
             "(documented defaults also left unspecified in the call), checks ranges/nestings on the definitions and exports "
             "rationals that are compared to 1e-9 with the public functions; ties on a tolerance are flagged by the spec and "
             "skipped, as the property stipulates. Further models: Beat.tla (P-score, Goto, Cemgil, continuity, information-gain "
             "histograms; MC_C04_beat), Pattern.tla (MC_C04_pattern), MelodyPre.tla end to end (padding, voicing, cents, "
             "resampling kinds linear/zero/nearest, constant hop, continuous voicing; MC_C04_melrs, MC_C04_melk), Velocity.tla "
             "(least-squares velocity rescaling in exact integers; MC_Velocity), AOR on the recorded matching.",
        ref="4/C04"),
    "C19": dict(
        technique="TLA+ loop machine of the framewise variants and permutation optimality/equivariance (Sep.tla) model-checked; "
                  "recorded bss_eval_* outcomes (discrete facts + harness-measured numeric facts as booleans) judged by a TLA+ "
                  "trace spec",
        text="Only the discrete content of C19 is decided by the specification: window count floor((L-window+hop)/hop), fallback "
             "below two windows, NaN in every metric iff a source is silent in the window, arity 4/5 incl. empty input, the "
             "permutation being a permutation that maximises summed SIR (matrix rebuilt through the public API) and following "
             "a reordering of the estimates. Exact decomposition, scale invariance, window == non-framewise on its slice and "
             "'very high SDR' are floating-point facts measured by the harness on seeded random/mixed/filtered signals (1-3 "
             "sources, 1-2 channels) and only their truth values pass through Trace_C19. Hence level 'other'.",
        ref="4/C19, 8",
        category="other"),
}

PENDING = "check not built yet (build in progress; see DESIGN.md section 10)"


def main():
    ids = [json.loads(l)["id"] for l in open(os.path.join(HERE, "properties.jsonl"))]
    checks = []
    for i in ids:
        if i not in CHECKS:
            continue
        c = CHECKS[i]
        checks.append({
            "property_id": i,
            "quick_cmd": "./check %s quick" % i,
            "thorough_cmd": "./check %s thorough" % i,
            "evidence_file": "evidence/%s.json" % i,
            "replay_cmd_template": "./check %s --replay {path}" % i,
            "engine": "tlc+replay",
            "level_claimed": {"category": c.get("category", "model_checking"), "text": c["text"],
                              "design_ref": c["ref"]},
            "level_note": c.get("note", TB),
            "technique": c["technique"],
        })
    na = [{"property_id": i, "reason": NA.get(i, PENDING)} for i in ids if i not in CHECKS]
    m = {
        "version": 1,
        "setup_cmd": "./setup.sh",
        "hooks": {"guard": "MIR_EVAL_VERIF",
                  "enable": "no source change in /repo: ./check sets MIR_EVAL_VERIF=1 and the harness attaches an "
                            "external recorder (sys.monitoring on the unmodified functions' code objects)",
                  "baseline_off_cmd": BASE, "source_commits": [], "add_only": True},
        "engines": [{"name": "tlc+replay", "path": "check", "serves_properties": [c["property_id"] for c in checks],
                     "kind_free_text": "TLA+ specification checked by TLC; TLC-generated behaviours replayed into "
                                       "mir_eval; behaviours recorded from mir_eval validated by TLA+ trace specs"}],
        "checks": checks,
        "not_applicable": na,
        "notes": "See DESIGN.md. Checks import mir_eval from /repo's working tree on every run "
                 "(MIR_EVAL_REPO overrides the path for self-tests on scratch copies).",
    }
    if not na:
        del m["not_applicable"]
    with open(os.path.join(HERE, "MANIFEST.json"), "w") as f:
        json.dump(m, f, indent=1)
    print("MANIFEST: %d checks, %d not_applicable" % (len(checks), len(na)))


NA = {}

if __name__ == "__main__":
    main()
