#!/venv/bin/python
"""tools/verify_seed.py <Cxx> [A|B ...]
Confirm a seeded change produced by a sub-agent (files in /tmp/wt/<Cxx>/out/) in a FRESH scratch worktree
of /repo's HEAD: the patch applies, the 66 pinned baseline tests still pass with it, the demonstration
fails with it and passes without it.  Only then is it kept as /verif/seeded/<Cxx>-<X>/."""
import json
import os
import shutil
import subprocess
import sys
import tempfile
import xml.etree.ElementTree as ET

BASE = json.load(open("/root/.vp/BASELINE.json"))
STABLE = set(BASE["stable_pass"])
VERIF = os.path.dirname(os.path.dirname(os.path.abspath(__file__)))


def sh(cmd, cwd=None, env=None, timeout=1800):
    e = dict(os.environ)
    if env:
        e.update(env)
    p = subprocess.run(cmd, shell=True, cwd=cwd, env=e, stdout=subprocess.PIPE, stderr=subprocess.STDOUT,
                       text=True, timeout=timeout)
    return p.returncode, p.stdout


def passed_names(xml):
    out = set()
    for tc in ET.parse(xml).getroot().iter("testcase"):
        if not any(ch.tag in ("failure", "error", "skipped") for ch in tc):
            out.add("%s::%s" % (tc.get("classname"), tc.get("name")))
    return out


def verify(pid, x, src=None, name=None):
    src = src or "/tmp/wt/%s/out" % pid
    patch, demo, meta = ("%s/%s%s.%s" % (src, a, x, b) for a, b in (("patch", "diff"), ("demo", "py"), ("meta", "json")))
    if not (os.path.exists(patch) and os.path.exists(demo)):
        return {"ok": False, "why": "files missing"}
    wt = tempfile.mkdtemp(prefix="seedwt_", dir="/tmp")
    os.rmdir(wt)
    rec = {"property": pid, "variant": x}
    try:
        rc, out = sh("git -C /repo worktree add -q --detach %s HEAD" % wt)
        if rc:
            return {"ok": False, "why": "worktree: " + out[-300:]}
        env = {"PYTHONPATH": wt, "PYTHONHASHSEED": "0"}
        rc0, out0 = sh("/venv/bin/python %s" % demo, cwd=wt, env=env, timeout=900)
        rec["demo_clean_rc"] = rc0
        rc, out = sh("git apply %s" % patch, cwd=wt)
        if rc:
            rc, out = sh("patch -p1 < %s" % patch, cwd=wt)
        if rc:
            return dict(rec, ok=False, why="patch does not apply to HEAD: " + out[-300:])
        rc1, out1 = sh("/venv/bin/python %s" % demo, cwd=wt, env=env, timeout=900)
        rec["demo_patched_rc"] = rc1
        rec["demo_patched_tail"] = out1[-400:]
        xml = wt + "/junit.xml"
        sh("/venv/bin/python -m pytest -q -p no:cacheprovider --timeout=900 --continue-on-collection-errors "
           "--junitxml=%s" % xml, cwd=wt, env=env, timeout=1500)
        got = passed_names(xml) if os.path.exists(xml) else set()
        missing = sorted(STABLE - got)
        rec["baseline_missing"] = missing[:5]
        rec["baseline_passed"] = len(STABLE & got)
        ok = rc0 == 0 and rc1 != 0 and not missing
        rec["ok"] = ok
        if ok:
            dst = os.path.join(VERIF, "seeded", "%s-%s" % (name or pid, x))
            os.makedirs(dst, exist_ok=True)
            shutil.copy(patch, dst + "/patch.diff")
            shutil.copy(demo, dst + "/demo.py")
            m = json.load(open(meta)) if os.path.exists(meta) else {}
            m["verified"] = {"by": "tools/verify_seed.py in a fresh worktree of /repo HEAD",
                             "head": sh("git -C /repo rev-parse --short HEAD")[1].strip(),
                             "demo_rc_clean": rc0, "demo_rc_patched": rc1,
                             "baseline_stable_passed_with_patch": rec["baseline_passed"]}
            json.dump(m, open(dst + "/meta.json", "w"), indent=1)
        return rec
    finally:
        sh("git -C /repo worktree remove --force %s" % wt)
        shutil.rmtree(wt, ignore_errors=True)


if __name__ == "__main__":
    # round 1:  verify_seed.py C05 [A B]        round 2:  verify_seed.py C05 --round2 <worktree-name> [A B]
    pid = sys.argv[1]
    if len(sys.argv) > 2 and sys.argv[2] == "--round2":
        wt = sys.argv[3]
        for x in (sys.argv[4:] or ["A", "B"]):
            print(json.dumps(verify(pid, x, src="/tmp/wt2/%s/out" % wt, name=pid + "r2" + wt[3:])))
    elif len(sys.argv) > 2 and sys.argv[2] == "--round3":
        for x in (sys.argv[3:] or ["A", "B"]):
            print(json.dumps(verify(pid, x, src="/tmp/wt3/%s/out" % pid, name=pid + "r3")))
    elif len(sys.argv) > 2 and sys.argv[2] == "--round5":
        for x in (sys.argv[3:] or ["A", "B"]):
            print(json.dumps(verify(pid, x, src="/tmp/wt5/%s/out" % pid, name=pid + "r5")))
    elif len(sys.argv) > 2 and sys.argv[2] == "--round6":
        for x in (sys.argv[3:] or ["A", "B"]):
            print(json.dumps(verify(pid, x, src="/tmp/wt6/%s/out" % pid, name=pid + "r6")))
    elif len(sys.argv) > 2 and sys.argv[2] == "--round4":
        for x in (sys.argv[3:] or ["A", "B"]):
            print(json.dumps(verify(pid, x, src="/tmp/wt4/%s/out" % pid, name=pid + "r4")))
    else:
        for x in (sys.argv[2:] or ["A", "B"]):
            print(json.dumps(verify(pid, x)))
