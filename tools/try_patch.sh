#!/bin/sh
# tools/try_patch.sh <patch.diff> <tier> <Cxx> [<Cyy> ...]
# copy /repo to a scratch dir OUTSIDE /repo and /verif, apply the patch, run the checks against the
# copy (MIR_EVAL_REPO), print exit codes, remove the copy.  Evidence/replays go to the scratch dir.
P="$1"; TIER="$2"; shift 2
S=$(mktemp -d /tmp/mut_XXXXXX)
rsync -a --exclude .git --exclude .coverage --exclude coverage.xml /repo/ "$S/repo/"
(cd "$S/repo" && patch -p1 -s < "$P") || { echo "PATCH-FAILED $P"; rm -rf "$S"; exit 3; }
for id in "$@"; do
  MIR_EVAL_REPO="$S/repo" VERIF_EVIDENCE_DIR="$S/ev" VERIF_REPLAY_DIR="$S/rp" /verif/check "$id" "$TIER" > "$S/out_$id.txt" 2>&1
  rc=$?
  echo "RESULT patch=$(basename $(dirname $P))/$(basename $P) check=$id rc=$rc $(grep -c '^VIOLATION' "$S/out_$id.txt") violations; $(grep -m1 -A1 '^VIOLATION' "$S/out_$id.txt" | tail -1 | cut -c1-300)"
  [ "$rc" = 2 ] && tail -5 "$S/out_$id.txt"
done
rm -rf "$S"
