"""print a python source file with docstrings removed (reading aid)"""
import ast, sys
src = open(sys.argv[1]).read()
t = ast.parse(src)
for n in ast.walk(t):
    if isinstance(n, (ast.FunctionDef, ast.ClassDef, ast.Module)) and n.body and isinstance(n.body[0], ast.Expr) and isinstance(getattr(n.body[0], 'value', None), ast.Constant) and isinstance(n.body[0].value.value, str):
        n.body = n.body[1:] or [ast.Pass()]
print(ast.unparse(t))
