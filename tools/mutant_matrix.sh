#!/bin/sh
# tools/mutant_matrix.sh [tier]   - run, for every seeded change (all rounds), the check of the property it
# targets (on a scratch copy of /repo with the change applied); results in seeded/RESULTS_<tier>.txt
TIER=${1:-quick}
OUT=${MATRIX_OUT:-/verif/seeded/RESULTS_$TIER.txt}
: > $OUT.tmp
ls -d /verif/seeded/C??*-? | xargs -P 4 -I{} sh -c 'id=$(basename {} | cut -c1-3); /verif/tools/try_patch.sh {}/patch.diff '$TIER' $id 2>&1 | grep "^RESULT" | cut -c1-260 >> '$OUT.tmp
sort $OUT.tmp > $OUT; rm -f $OUT.tmp
echo "caught: $(grep -c "rc=1" $OUT) of $(wc -l < $OUT)"; grep -v "rc=1" $OUT
