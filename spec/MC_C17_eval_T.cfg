SPECIFICATION Spec
CONSTANTS T = 4
          NLR = 2
          NLE = 2
          NS = 2
          Labels = {"a"}
          FS = {1, 2}
          Windows = {0, 2}
          EStarts = {0, 1}
          EEnds = {3, 5}
INVARIANT Aligned
INVARIANT InRange
INVARIANT Export
