---------------------------- MODULE MC_C16_eval ----------------------------
(* segment.evaluate as a composition: the reference is adjusted to start at 0, the estimate to       *)
(* [0, end of the reference] (Intervals!AdjustSpec: crop, pad with "__T_MIN" / "__T_MAX"); on the      *)
(* aligned pair: boundary detection at 0.5 s and 3 s, boundary deviation (Metrics.tla), frame labels,  *)
(* contingency table and the pair-counting indices (SegmentCluster.tla).  References may start late,    *)
(* estimates may start late and end early or late.  Time unit 0.25 s: windows 2 and 12 units.          *)
EXTENDS SegmentCluster, Metrics, TLC, Json
CONSTANTS T, NI, Labels, FS, RStarts, EStarts, EEnds
VARIABLES ref, est, fs, out, pc
vars == <<ref, est, fs, out, pc>>
SegsOn(s, e) == {IntervalsOf(SortSet(X \cup {s, e})) : X \in {Y \in SUBSET ((s + 1)..(e - 1)) : Cardinality(Y) <= NI - 1}}
AnnOn(s, e) == UNION {{[ivs |-> iv, labs |-> l] : l \in [1..Len(iv) -> Labels]} : iv \in SegsOn(s, e)}
Init == /\ ref \in UNION {AnnOn(s, T) : s \in RStarts}
        /\ est \in UNION {AnnOn(s, e) : s \in EStarts, e \in EEnds}
        /\ fs \in FS /\ out = <<>> /\ pc = "in"
RefA == AdjustSpec(ref.ivs, ref.labs, 0, NONE_T, "__T_MIN", "__T_MAX")
EstA == AdjustSpec(est.ivs, est.labs, 0, SpanMax(RefA.ivs), "__T_MIN", "__T_MAX")
YR == FrameLabels(RefA.ivs, RefA.labs, fs)
YE == FrameLabels(EstA.ivs, EstA.labs, fs)
One == <<1, 1>>
Solve == /\ pc = "in" /\ pc' = "out" /\ UNCHANGED <<ref, est, fs>>
         /\ out' = [refA |-> RefA, estA |-> EstA, yr |-> YR, ye |-> YE, cells |-> Cells(YR, YE),
                    pp |-> PairwisePClosed(YR, YE), pr |-> PairwiseRClosed(YR, YE),
                    rand |-> RandClosed(YR, YE), ari |-> Ari(YR, YE),
                    d05 |-> DetectionPRF(RefA.ivs, EstA.ivs, 2, FALSE, One), d3 |-> DetectionPRF(RefA.ivs, EstA.ivs, 12, FALSE, One),
                    dev |-> Deviation(Boundaries(RefA.ivs, FALSE), Boundaries(EstA.ivs, FALSE))]
Next == Solve
Spec == Init /\ [][Next]_vars
(* after alignment both annotations cover exactly [0, end of the reference], hence equally many frames, *)
(* and both outer boundaries are always hit                                                              *)
Aligned == pc = "out" =>
  /\ out.refA.ivs[1][1] = 0 /\ out.estA.ivs[1][1] = 0
  /\ out.estA.ivs[Len(out.estA.ivs)][2] = out.refA.ivs[Len(out.refA.ivs)][2]
  /\ Len(out.yr) = Len(out.ye)
  /\ RLeq(Norm(2, Len(Boundaries(out.estA.ivs, FALSE))), out.d05.p)
InRange == pc = "out" => /\ InUnit(out.d05.p) /\ InUnit(out.d05.r) /\ InUnit(out.d3.p) /\ InUnit(out.d3.r)
                         /\ RLeq(out.d05.p, out.d3.p) /\ RLeq(out.d05.r, out.d3.r)
                         /\ (IsDefined(out.pp) => InUnit(out.pp)) /\ (IsDefined(out.pr) => InUnit(out.pr))
Export == pc = "out" => PrintT("ROW" \o ToJson([ref |-> ref, est |-> est, fs |-> fs, out |-> out]))
=============================================================================
