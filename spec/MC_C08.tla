------------------------------ MODULE MC_C08 ------------------------------
(* Time origin and item order carry no meaning (C08), on the definitions:                       *)
(*  events : shifting both event lists by d leaves the feasibility graph unchanged               *)
(*  notes  : shifting both note lists by d leaves the note / onset / offset graphs unchanged;     *)
(*           permuting the notes of either side leaves the maximum matching size unchanged        *)
(*  chords : shifting both annotations by d leaves every chord.evaluate score unchanged           *)
EXTENDS ChordEval, Hits, Matching
CONSTANTS P, N, W, Shifts, Onsets, Durs, Pitches, NN
VARIABLES kind, x, y, w, d, pc
vars == <<kind, x, y, w, d, pc>>
Note == [on : Onsets, dur : Durs, p : Pitches]
Mk(l, a, sh) == [kind |-> "chord", letter |-> l, acc |-> a, sh |-> sh, degs |-> <<>>, bass |-> <<>>]
Vocab == << [kind |-> "N"], Mk("C", 0, "none"), Mk("G", 0, "min") >>
Segs(lo, hi) == {IntervalsOf(SortSet(T \cup {lo, hi})) : T \in {X \in SUBSET ((lo + 1)..(hi - 1)) : Cardinality(X) <= 1}}
Ann(lo, hi) == UNION {{[ivs |-> iv, labs |-> l] : l \in [1..Len(iv) -> 1..3]} : iv \in Segs(lo, hi)}
Init == /\ pc = "in" /\ d \in Shifts
        /\ \/ (kind = "events" /\ x \in SortedSeqs(0..P, N) /\ y \in SortedSeqs(0..P, N) /\ w \in W)
           \/ (kind = "notes" /\ x \in SeqsUpTo(Note, NN) /\ y \in SeqsUpTo(Note, NN) /\ w \in {1})
           \/ (kind = "chords" /\ x \in Ann(0, 3) /\ y \in UNION {Ann(a, b) : a \in {0, 1}, b \in {3, 4}} /\ w \in {0})
Step == pc = "in" /\ pc' = "out" /\ UNCHANGED <<kind, x, y, w, d>>
Next == Step
Spec == Init /\ [][Next]_vars
ShiftSeq(s) == [i \in 1..Len(s) |-> s[i] + d]
ShiftNotes(s) == [i \in 1..Len(s) |-> [s[i] EXCEPT !.on = @ + d]]
ShiftAnn(a) == [ivs |-> [i \in 1..Len(a.ivs) |-> <<a.ivs[i][1] + d, a.ivs[i][2] + d>>], labs |-> a.labs]
Reverse(s) == [i \in 1..Len(s) |-> s[Len(s) + 1 - i]]
RevPairs(E, n) == {<<n + 1 - e[1], e[2]>> : e \in E}
EncOf(i) == Encode(Vocab[i], FALSE, FALSE)
EvalScores(r, e) ==
  LET lo == r.ivs[1][1]  hi == r.ivs[Len(r.ivs)][2]
      adj == AdjustSpec(e.ivs, e.labs, lo, hi, 1, 1)
      mg == MergeSpec(r.ivs, r.labs, adj.ivs, adj.labs)
      dur == [i \in 1..Len(mg.ivs) |-> mg.ivs[i][2] - mg.ivs[i][1]]
      cmp == [i \in 1..Len(mg.ivs) |-> Compare(EncOf(mg.xl[i]), EncOf(mg.yl[i]))]
      mref == MergeChords(r.ivs, [i \in 1..Len(r.ivs) |-> EncOf(r.labs[i])])
      mest == MergeChords(adj.ivs, [i \in 1..Len(adj.ivs) |-> EncOf(adj.labs[i])])
  IN  <<[j \in 1..12 |-> WAcc([i \in 1..Len(cmp) |-> cmp[i][j]], dur)], UnderSeg(mref, mest), OverSeg(mref, mest)>>
ShiftInvariant == pc = "out" =>
  CASE kind = "events" -> EventEdges(ShiftSeq(x), ShiftSeq(y), w) = EventEdges(x, y, w)
    [] kind = "notes" ->
         /\ NoteEdges(ShiftNotes(x), ShiftNotes(y), <<1, 1>>, <<50, 1>>, <<1, 2>>, <<1, 1>>, FALSE)
              = NoteEdges(x, y, <<1, 1>>, <<50, 1>>, <<1, 2>>, <<1, 1>>, FALSE)
         /\ OffsetEdges(ShiftNotes(x), ShiftNotes(y), <<1, 2>>, <<1, 1>>, TRUE) = OffsetEdges(x, y, <<1, 2>>, <<1, 1>>, TRUE)
    [] kind = "chords" -> EvalScores(ShiftAnn(x), ShiftAnn(y)) = EvalScores(x, y)
PermuteInvariant == pc = "out" /\ kind = "notes" =>
  LET E == NoteEdges(x, y, <<1, 1>>, <<50, 1>>, NONE, <<1, 1>>, FALSE)
      Er == NoteEdges(Reverse(x), y, <<1, 1>>, <<50, 1>>, NONE, <<1, 1>>, FALSE)
  IN  Er = RevPairs(E, Len(x)) /\ MaxSize(Len(x), Er) = MaxSize(Len(x), E)
=============================================================================
