---------------------------- MODULE MC_Velocity ----------------------------
(* (velocities in units of 1/U: U = 2 puts ranges of one half below the "max(1, range)" floor)              *)
(* Every assignment of small integer velocities to N matched note pairs (the note matching is the     *)
(* identity: the notes themselves are identical and well separated) x tolerances: which pairs survive *)
(* the velocity criterion by Velocity.tla, exported for replay; and facts of the definition itself.   *)
EXTENDS Velocity, TLC, Json
CONSTANTS N, Vs, Tols, Extra, U
VARIABLES rv, evl, nx, out, pc
vars == <<rv, evl, nx, out, pc>>
TolsQ == {<<1, 20>>, <<1, 10>>, <<1, 4>>, <<1, 2>>}
TolsS == {<<1, 10>>, <<1, 4>>}
(* nx unmatched reference notes with velocities from Extra sit BEHIND the matched ones: they take part in the *)
(* normalisation (min / max over all reference notes) but not in the regression                              *)
Init == /\ \E n \in 1..N : rv \in [1..n -> Vs] /\ evl \in [1..n -> Vs]
        /\ nx \in {<<>>} \cup {<<x>> : x \in Extra}
        /\ out = <<>> /\ pc = "in"
Ident(n) == [k \in 1..n |-> <<k, k>>]
AllRv == rv \o nx
Solve == /\ pc = "in" /\ pc' = "out" /\ UNCHANGED <<rv, evl, nx>>
         /\ LET M == Ident(Len(rv)) IN
            out' = [t \in Tols |-> [keep |-> {k \in 1..Len(M) : Within(M, AllRv, evl, k, t, U)},
                                    tie  |-> {k \in 1..Len(M) : OnTol(M, AllRv, evl, k, t, U)}]]
Next == Solve
Spec == Init /\ [][Next]_vars
M0 == Ident(Len(rv))
SignedNum(k) ==
  LET n == Len(M0)  det == Det(M0, evl)
      A == n * SxY(M0, AllRv, evl) - Sx(M0, evl) * SY(M0, AllRv)
      B == SY(M0, AllRv) * det - A * Sx(M0, evl)
  IN  A * evl[k] * n + B - YNum(AllRv, k) * det * n
(* normal equations of least squares: residuals sum to zero and are orthogonal to x *)
NormalEq == pc = "out" /\ Det(M0, evl) # 0 =>
  /\ SumSeq([k \in 1..Len(M0) |-> SignedNum(k)]) = 0
  /\ SumSeq([k \in 1..Len(M0) |-> SignedNum(k) * evl[k]]) = 0
(* C07: a wider velocity tolerance keeps at least the same pairs *)
TolMonotone == pc = "out" => \A s, t \in Tols : s[1] * t[2] <= t[1] * s[2] => out[s].keep \subseteq out[t].keep
(* C02: an estimate whose velocities are an increasing affine image of the reference's keeps every pair *)
AffinePerfect == pc = "out" /\ Len(rv) >= 2 /\ Det(M0, evl) # 0 /\ (\E a \in 1..3, b \in 0..3 : \A k \in 1..Len(rv) : evl[k] = a * rv[k] + b)
                   => \A t \in Tols : out[t].keep = 1..Len(rv)
Export == pc = "out" => PrintT("ROW" \o ToJson([u |-> U, rv |-> rv, evl |-> evl, nx |-> nx,
                                                out |-> [t \in Tols |-> [tol |-> t, keep |-> out[t].keep, tie |-> out[t].tie]]]))
=============================================================================
