----------------------------- MODULE Relations -----------------------------
(* The Transform actions of the session machine (Layer 2) as relations between the outcomes   *)
(* of two calls  prev = f(x)  and  last = f(T(x)):  which positions of the two result tuples   *)
(* must be bit-identical, equal to 1e-9, exchanged, or ordered.  The tables below ARE the      *)
(* claims of C02/C06/C07/C08/C09/C12 per public function; the harness only performs the calls. *)
(* A recorded float is [c |-> "fin"|"nan"|"inf", b1, b2, b3 |-> limbs of its 64-bit pattern,   *)
(* m9 |-> round(x * 10^9) clipped to +-2*10^9].                                               *)
EXTENDS Integers, Sequences, FiniteSets

BitEq(x, y)  == \/ (x.c = y.c /\ x.b1 = y.b1 /\ x.b2 = y.b2 /\ x.b3 = y.b3)
                \/ (x.c = "fin" /\ y.c = "fin" /\ x.m9 = 0 /\ y.m9 = 0 /\ x.b2 = 0 /\ y.b2 = 0 /\ x.b3 = 0 /\ y.b3 = 0)  \* +0.0 / -0.0
(* m9 is clipped to +-2*10^9 (values beyond +-2); there the comparison falls back to m6 (1e-6)   *)
Big(x) == x.m9 >= 2000000000 \/ x.m9 <= -2000000000
Close(x, y)  == \/ (x.c = "nan" /\ y.c = "nan")
                \/ (x.c = "fin" /\ y.c = "fin" /\ x.m9 - y.m9 <= 1 /\ y.m9 - x.m9 <= 1 /\ x.m6 - y.m6 <= 1 /\ y.m6 - x.m6 <= 1)
Leq(x, y)    == x.c = "fin" /\ y.c = "fin" /\ (IF Big(x) \/ Big(y) THEN x.m6 <= y.m6 + 1 ELSE x.m9 <= y.m9 + 1)
IsVal(x, n, d) == x.c = "fin" /\ x.m9 * d - n * 1000000000 <= d /\ n * 1000000000 - x.m9 * d <= d   \* x = n/d to 1e-9

(* a check is <<op, i, j>>: compare a[i] with b[j] *)
Holds(chk, a, b) ==
  CASE chk[1] = "biteq" -> BitEq(a[chk[2]], b[chk[3]])
    [] chk[1] = "close" -> Close(a[chk[2]], b[chk[3]])
    [] chk[1] = "leq"   -> Leq(a[chk[2]], b[chk[3]])
    [] chk[1] = "geq"   -> Leq(b[chk[3]], a[chk[2]])
    [] chk[1] = "is1"   -> IsVal(a[chk[2]], 1, 1)
    [] chk[1] = "is0"   -> IsVal(a[chk[2]], 0, 1)

Same(op, n) == [i \in 1..n |-> <<op, i, i>>]
(* (P, R, F) -> (R, P, F) *)
SwapPRF(op) == <<<<op, 1, 2>>, <<op, 2, 1>>, <<op, 3, 3>>>>
(* (F, P, R) -> (F, R, P) *)
SwapFPR(op) == <<<<op, 1, 1>>, <<op, 2, 3>>, <<op, 3, 2>>>>

(* ---- C06: exchanging reference and estimate ------------------------------------------------ *)
SwapSpec(fn) ==
  CASE fn = "beat.f_measure" -> Same("close", 1)
    [] fn = "onset.f_measure" -> SwapFPR("biteq")
    [] fn = "segment.detection" -> SwapPRF("biteq")
    [] fn = "segment.deviation" -> <<<<"biteq", 1, 2>>, <<"biteq", 2, 1>>>>
    [] fn = "segment.pairwise" -> SwapPRF("close")
    [] fn = "segment.rand_index" -> Same("close", 1)
    [] fn = "segment.ari" -> Same("close", 1)
    [] fn = "segment.mutual_information" -> Same("close", 3)
    [] fn = "segment.nce" -> <<<<"close", 1, 2>>, <<"close", 2, 1>>, <<"close", 3, 3>>>>
    [] fn = "segment.vmeasure" -> <<<<"close", 1, 2>>, <<"close", 2, 1>>, <<"close", 3, 3>>>>
    [] fn = "chord.overunderseg" -> <<<<"close", 1, 2>>, <<"close", 2, 1>>, <<"close", 3, 3>>>>   \* (over, under, seg)
    [] fn = "multipitch.metrics" -> <<<<"close", 1, 2>>, <<"close", 2, 1>>, <<"close", 3, 3>>,
                                      <<"close", 8, 9>>, <<"close", 9, 8>>, <<"close", 10, 10>>>>
    [] fn = "transcription.onset_precision_recall_f1" -> SwapPRF("biteq")
    [] fn = "transcription.precision_recall_f1_overlap[no_offset]" -> SwapPRF("biteq")    \* AOR excluded
    [] fn = "pattern.establishment_FPR" -> SwapFPR("close")
    [] fn = "pattern.occurrence_FPR" -> SwapFPR("close")
    [] fn = "pattern.three_layer_FPR" -> SwapFPR("close")
    [] fn = "hierarchy.tmeasure" -> SwapPRF("close")
    [] fn = "hierarchy.lmeasure" -> SwapPRF("close")

(* ---- C07: widening one tolerance (a = tighter, b = looser): listed positions never decrease - *)
MonoSpec(fn) ==
  CASE fn = "beat.f_measure" -> Same("leq", 1)
    [] fn = "onset.f_measure" -> Same("leq", 3)
    [] fn = "segment.detection" -> Same("leq", 3)
    [] fn = "transcription.precision_recall_f1_overlap" -> Same("leq", 3)                  \* not AOR
    [] fn = "transcription.onset_precision_recall_f1" -> Same("leq", 3)
    [] fn = "transcription.offset_precision_recall_f1" -> Same("leq", 3)
    [] fn = "transcription_velocity.precision_recall_f1_overlap" -> Same("leq", 3)
    [] fn = "count" -> Same("leq", 1)                                                     \* sizes of matchings
    [] fn = "melody.raw_pitch_accuracy" -> Same("leq", 1)
    [] fn = "melody.raw_chroma_accuracy" -> Same("leq", 1)
    [] fn = "melody.overall_accuracy" -> Same("leq", 1)
    [] fn = "multipitch.metrics" -> <<<<"leq", 1, 1>>, <<"leq", 2, 2>>, <<"leq", 3, 3>>, <<"leq", 8, 8>>, <<"leq", 9, 9>>, <<"leq", 10, 10>>>>
    [] fn = "tempo.detection" -> Same("leq", 3)
    [] fn = "alignment.percentage_correct" -> Same("leq", 1)
    [] fn = "nested" -> Same("leq", 1)                                                    \* a = stricter criterion, b = nested looser one

(* ---- C02: metric(x, copy of x) is optimal; "any" = no claim for that position ------------- *)
Rep(v, n) == [i \in 1..n |-> v]
PerfectSpec(fn) ==
  CASE fn = "beat.f_measure" -> Rep("is1", 1)
    [] fn = "beat.cemgil" -> Rep("is1", 2)
    [] fn = "beat.goto" -> Rep("is1", 1)
    [] fn = "beat.p_score" -> Rep("is1", 1)
    [] fn = "beat.continuity" -> Rep("is1", 4)
    [] fn = "beat.information_gain" -> Rep("is1", 1)
    [] fn = "beat.evaluate" -> Rep("is1", 10)
    [] fn = "onset.f_measure" -> Rep("is1", 3)
    [] fn = "onset.evaluate" -> Rep("is1", 3)
    [] fn = "segment.detection" -> Rep("is1", 3)
    [] fn = "segment.deviation" -> Rep("is0", 2)
    [] fn = "segment.pairwise" -> Rep("is1", 3)
    [] fn = "segment.rand_index" -> Rep("is1", 1)
    [] fn = "segment.ari" -> Rep("is1", 1)
    [] fn = "segment.mutual_information" -> <<"any", "is1", "is1">>
    [] fn = "segment.nce" -> Rep("is1", 3)
    [] fn = "segment.vmeasure" -> Rep("is1", 3)
    [] fn = "segment.evaluate" -> Rep("is1", 6) \o Rep("is0", 2) \o Rep("is1", 5) \o <<"any">> \o Rep("is1", 8)
    [] fn = "chord.evaluate" -> Rep("is1", 15)
    \* "nothing to compare": 0 by documented convention (the segmentation scores do not depend on the vocabulary)
    [] fn = "chord.evaluate[reference all X]" -> Rep("is0", 12) \o Rep("is1", 3)
    [] fn = "chord.evaluate[reference outside maj/min/7]" -> Rep("is1", 8) \o Rep("is0", 4) \o Rep("is1", 3)
    [] fn = "segment.nce[one label]" -> Rep("is0", 3)
    [] fn = "melody.evaluate" -> <<"is1", "is0", "is1", "is1", "is1">>
    [] fn = "melody.evaluate[soft reward]" -> <<"any", "any", "is1", "is1", "any">>   \* a soft reference reward: the voicing measures are means of weights, only the pitch accuracies have the copy as their optimum
    [] fn = "multipitch.metrics" -> <<"is1", "is1", "is1", "is0", "is0", "is0", "is0", "is1", "is1", "is1", "is0", "is0", "is0", "is0">>
    [] fn = "multipitch.evaluate" -> <<"is1", "is1", "is1", "is0", "is0", "is0", "is0", "is1", "is1", "is1", "is0", "is0", "is0", "is0">>
    [] fn = "transcription.precision_recall_f1_overlap" -> Rep("is1", 4)
    [] fn = "transcription.onset_precision_recall_f1" -> Rep("is1", 3)
    [] fn = "transcription.offset_precision_recall_f1" -> Rep("is1", 3)
    [] fn = "transcription.evaluate" -> Rep("is1", 14)
    [] fn = "transcription_velocity.precision_recall_f1_overlap" -> Rep("is1", 4)
    [] fn = "transcription_velocity.evaluate" -> Rep("is1", 8)
    [] fn = "tempo.detection" -> Rep("is1", 3)
    [] fn = "key.weighted_score" -> Rep("is1", 1)
    [] fn = "pattern.standard_FPR" -> Rep("is1", 3)
    [] fn = "pattern.establishment_FPR" -> Rep("is1", 3)
    [] fn = "pattern.occurrence_FPR" -> Rep("is1", 3)
    [] fn = "pattern.three_layer_FPR" -> Rep("is1", 3)
    [] fn = "pattern.first_n_three_layer_P" -> Rep("is1", 1)
    [] fn = "pattern.first_n_target_proportion_R" -> Rep("is1", 1)
    [] fn = "pattern.evaluate" -> Rep("is1", 17)
    [] fn = "hierarchy.tmeasure" -> Rep("is1", 3)
    [] fn = "hierarchy.lmeasure" -> Rep("is1", 3)
    [] fn = "hierarchy.evaluate" -> Rep("is1", 9)
    [] fn = "alignment.absolute_error" -> Rep("is0", 2)
    [] fn = "alignment.percentage_correct" -> Rep("is1", 1)
    [] fn = "alignment.percentage_correct_segments" -> Rep("is1", 1)
    [] fn = "alignment.evaluate" -> <<"is1", "is0", "is0", "is1", "any">>
=============================================================================
