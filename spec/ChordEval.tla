----------------------------- MODULE ChordEval -----------------------------
(* chord.evaluate as a stage machine over lattice intervals (Layer 1):                         *)
(*   Adjust -> MergeChords(ref) -> MergeChords(est) -> MergeLabeled -> Durations                *)
(*   -> Compare x 12 -> WeightedAccuracy x 12 -> Segmentation (under, over, seg)                *)
(* Every stage is a public function of mir_eval (util.adjust_intervals, chord.merge_chord_       *)
(* intervals, util.merge_labeled_intervals, util.intervals_to_durations, the 12 rules,           *)
(* chord.weighted_accuracy, chord.underseg/overseg), so the implementation can be stepped stage  *)
(* by stage and compared with the state of this machine after each action.                       *)
EXTENDS Chord, Intervals, TLC
(* labels are indices into a vocabulary of ASTs (CONSTANT-like operator supplied by the model)  *)

(* weighted accuracy: duration-weighted mean of the comparisons that are not -1; 0 when nothing *)
(* is comparable (documented convention)                                                         *)
WAcc(cmp, dur) ==
  LET n == Len(cmp)
      valid == {i \in 1..n : cmp[i] >= 0}
      tot == SumSet0({<<i, dur[i]>> : i \in valid})
      hit == SumSet0({<<i, dur[i]>> : i \in {j \in valid : cmp[j] = 1}})
  IN  IF SumSeq(dur) = 0 \/ valid = {} THEN <<0, 1>>
      ELSE Norm(hit, tot)                      \* tot = 0 with positive total weight: 0/0, kept visible
(* directional Hamming distance of segmentation b measured against a (both contiguous):        *)
(* for every interval of a, its duration minus the longest piece that b's boundaries cut it into *)
Pieces(iv, bnds) ==
  LET inside == {t \in bnds : iv[1] <= t /\ t < iv[2]}
      pts == SortSet(inside \cup {iv[1], iv[2]})
  IN  [k \in 1..(Len(pts) - 1) |-> pts[k + 1] - pts[k]]
MaxSeq(s) == MaxSet({s[k] : k \in 1..Len(s)})
DHD(a, b) ==
  LET bb == Bounds(b)
      loss == [i \in 1..Len(a) |-> (a[i][2] - a[i][1]) - MaxSeq(Pieces(a[i], bb))]
  IN  Norm(SumSeq(loss), a[Len(a)][2] - a[1][1])
OverSeg(ref, est)  == RSub(<<1, 1>>, DHD(ref, est))
UnderSeg(ref, est) == RSub(<<1, 1>>, DHD(est, ref))

(* merge neighbouring intervals whose labels have the same (extended-reduced) encoding          *)
RECURSIVE MergeEq(_, _, _)
MergeEq(ivs, encs, acc) ==
  IF ivs = <<>> THEN acc
  ELSE IF acc # <<>> /\ encs[1] = acc[Len(acc)][2]
       THEN MergeEq(Tail(ivs), Tail(encs), [acc EXCEPT ![Len(acc)] = <<<<acc[Len(acc)][1][1], ivs[1][2]>>, encs[1]>>])
       ELSE MergeEq(Tail(ivs), Tail(encs), Append(acc, <<ivs[1], encs[1]>>))
MergeChords(ivs, encs) == LET m == MergeEq(ivs, encs, <<>>) IN [k \in 1..Len(m) |-> m[k][1]]
=============================================================================
