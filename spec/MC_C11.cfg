SPECIFICATION Spec
CONSTANTS RefFam = "big"
          EstFam = "small"
          Offsets = {0, 7}
          Transpose = FALSE
INVARIANT Lattice
INVARIANT IgnoredByReferenceAlone
INVARIANT TransposeInvariant
INVARIANT Export
