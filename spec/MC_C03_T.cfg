SPECIFICATION Spec
CONSTANTS Tasks = {"beat", "onset", "segment", "chord", "melody", "multipitch", "transcription", "transcription_velocity", "tempo", "key", "pattern", "hierarchy", "alignment"}
          MaxSize = 4
INVARIANT ForcedWins
INVARIANT ReachExactly
INVARIANT NearMissInert
INVARIANT KeysDistinct
INVARIANT Export
