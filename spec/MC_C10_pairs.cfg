SPECIFICATION Spec
CONSTANTS Family = "pairs"
          Accs <- A0
          DegNums = {1, 3, 5, 7, 9, 11}
          DegAccs <- A2
          BassSet <- BassQ
INVARIANT EncodingSound
INVARIANT StrictOnlyRejects
INVARIANT ParseInverts
INVARIANT Export
