SPECIFICATION Spec
CONSTANTS Kind = "interp"
          P = 6
          NI = 2
          NP = 3
          Labels = {"a", "b"}
INVARIANT SpecAgrees
INVARIANT Export
