------------------------------ MODULE MC_C07 ------------------------------
(* Widening one tolerance never removes a feasible pair and never shrinks a maximum matching    *)
(* (C07), checked on the definitions for every enumerated input and every ORDERED pair of        *)
(* tolerance values: event windows (plain and chroma-wrapped) and each of the four note          *)
(* parameters in turn (onset tolerance, pitch tolerance, offset ratio, minimum offset tolerance),*)
(* the others fixed; strict is the tighter setting of the comparison operator.                   *)
EXTENDS Hits, Matching, TLC
CONSTANTS P, N, W, Onsets, Durs, Pitches, NN
VARIABLES kind, x, y, t1, t2, pc
vars == <<kind, x, y, t1, t2, pc>>
Note == [on : Onsets, dur : Durs, p : Pitches]
RatTols == {<<1, 2>>, <<1, 1>>, <<2, 1>>}
Ratios == {<<1, 4>>, <<1, 2>>, <<1, 1>>}
PTols == {<<30, 1>>, <<50, 1>>, <<90, 1>>}
Init == /\ pc = "in"
        /\ \/ /\ kind \in {"events", "chroma"}
              /\ x \in (IF kind = "events" THEN SortedSeqs(0..P, N) ELSE SeqsUpTo(0..P, N))
              /\ y \in (IF kind = "events" THEN SortedSeqs(0..P, N) ELSE SeqsUpTo(0..P, N))
              /\ t1 \in W /\ t2 \in W /\ t1 <= t2
           \/ /\ kind \in {"onset", "pitch", "ratio", "mintol", "strict"}
              /\ x \in SeqsUpTo(Note, NN) /\ y \in SeqsUpTo(Note, NN)
              /\ t1 \in (CASE kind = "onset" -> RatTols [] kind = "pitch" -> PTols [] kind = "ratio" -> Ratios
                           [] kind = "mintol" -> RatTols [] kind = "strict" -> {<<1, 1>>})
              /\ t2 \in (CASE kind = "onset" -> RatTols [] kind = "pitch" -> PTols [] kind = "ratio" -> Ratios
                           [] kind = "mintol" -> RatTols [] kind = "strict" -> {<<1, 1>>})
              /\ RLeq(t1, t2)
Edges(t, tight) ==
  CASE kind = "events" -> EventEdges(x, y, t)
    [] kind = "chroma" -> ModEdges(x, y, t, 6)
    [] kind = "onset"  -> NoteEdges(x, y, t, <<50, 1>>, <<1, 2>>, <<1, 1>>, FALSE)
    [] kind = "pitch"  -> NoteEdges(x, y, <<1, 1>>, t, <<1, 2>>, <<1, 1>>, FALSE)
    [] kind = "ratio"  -> NoteEdges(x, y, <<1, 1>>, <<50, 1>>, t, <<1, 2>>, FALSE)
    [] kind = "mintol" -> NoteEdges(x, y, <<1, 1>>, <<50, 1>>, <<1, 4>>, t, FALSE)
    [] kind = "strict" -> NoteEdges(x, y, <<1, 1>>, <<50, 1>>, <<1, 2>>, <<1, 1>>, tight)
Step == pc = "in" /\ pc' = "out" /\ UNCHANGED <<kind, x, y, t1, t2>>
Next == Step
Spec == Init /\ [][Next]_vars
EdgesGrow == pc = "out" => Edges(t1, TRUE) \subseteq Edges(t2, FALSE)
SizeMonotone == pc = "out" => MaxSize(Len(x), Edges(t1, TRUE)) <= MaxSize(Len(x), Edges(t2, FALSE))
=============================================================================
