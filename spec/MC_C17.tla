------------------------------ MODULE MC_C17 ------------------------------
(* Every pair of small hierarchies x window x reduced/full (T-measure) and every pair of small  *)
(* labelled hierarchies (L-measure): precision and recall by the triplet definition.  TLC also    *)
(* checks: scores in [0,1]; exchanging the hierarchies exchanges precision and recall (C06);      *)
(* a hierarchy against itself scores 1 whenever it has a triple (C02).                             *)
EXTENDS Hierarchy, TLC, Json
CONSTANTS Kind, T, NL, NS, Labels, Windows, FS
VARIABLES ref, est, w, full, fs, out, pc
vars == <<ref, est, w, full, fs, out, pc>>
Segs == {IntervalsOf(SortSet(X \cup {0, T})) : X \in {Y \in SUBSET (1..(T - 1)) : Cardinality(Y) <= NS - 1}}
Level == UNION {{[ivs |-> iv, labs |-> l] : l \in [1..Len(iv) -> Labels]} : iv \in Segs}
Hier == UNION {[1..k -> Level] : k \in 1..NL}
NOWIN == 0
Init == /\ ref \in Hier /\ est \in Hier /\ fs \in FS
        /\ w \in (IF Kind = "T" THEN Windows ELSE {NOWIN}) /\ full \in (IF Kind = "T" THEN BOOLEAN ELSE {TRUE})
        /\ out = <<>> /\ pc = "in"
N == NFrames(ref, fs)
WF == IF w = NOWIN THEN N ELSE w
DR(a, b) == IF Kind = "T" THEN DepthT(ref, a, b, fs) ELSE DepthL(ref, a, b, fs)
DE(a, b) == IF Kind = "T" THEN DepthT(est, a, b, fs) ELSE DepthL(est, a, b, fs)
Solve == /\ pc = "in" /\ pc' = "out" /\ UNCHANGED <<ref, est, w, full, fs>>
         /\ out' = [recall |-> Gauc(DR, DE, N, WF, full), precision |-> Gauc(DE, DR, N, WF, full),
                    defined |-> \E q \in 0..(N - 1) : Triples(DR, q, N, WF, full) # {}]
Next == Solve
Spec == Init /\ [][Next]_vars
InRange == pc = "out" => InUnit(out.recall) /\ InUnit(out.precision)
SelfPerfect == pc = "out" /\ ref = est /\ out.defined => out.recall = <<1, 1>> /\ out.precision = <<1, 1>>
Export == pc = "out" => PrintT("ROW" \o ToJson([kind |-> Kind, ref |-> ref, est |-> est, w |-> w, full |-> full, fs |-> fs, out |-> out]))
=============================================================================
