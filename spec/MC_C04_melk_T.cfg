SPECIFICATION Spec
CONSTANTS NR = 3
          NE = 2
          Frame <- Frames6
          Hops = {0, 1, 3}
          Kinds = {"linear", "zero", "nearest"}
          ESteps = {2, 3}
INVARIANT Sane
INVARIANT SelfPerfect
INVARIANT Export
