SPECIFICATION Spec
INVARIANT CleanRejection
INVARIANT EveryTaskHasValid
INVARIANT Export
