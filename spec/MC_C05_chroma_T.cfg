SPECIFICATION Spec
CONSTANTS P = 6
          N = 3
          W = {1, 2}
          Mode = "mod"
          Modulus = 6
INVARIANT Bound
INVARIANT SwapSym
INVARIANT SelfMatch
INVARIANT Export
