SPECIFICATION Spec
CONSTANTS P = 6
          N = 3
          W = {0, 1, 2}
          Shifts = {1, 2, 5}
          Onsets = {0, 1, 2}
          Durs = {1, 3}
          Pitches = {0, 40}
          NN = 2
INVARIANT ShiftInvariant
INVARIANT PermuteInvariant
