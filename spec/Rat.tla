------------------------------- MODULE Rat -------------------------------
(* Exact rationals <<n, d>> with d > 0, normalised by gcd.  Every score of mir_eval that is *)
(* a ratio of counts or of lattice durations is computed with these; model bounds keep all   *)
(* products below 2^31 (TLC aborts loudly on overflow, it never wraps).                      *)
EXTENDS Integers, Sequences, FiniteSets

AbsI(x) == IF x < 0 THEN -x ELSE x
MinI(a, b) == IF a <= b THEN a ELSE b
MaxI(a, b) == IF a >= b THEN a ELSE b

RECURSIVE Gcd(_, _)
Gcd(a, b) == IF b = 0 THEN a ELSE Gcd(b, a % b)

Norm(n, d) ==
  IF d = 0 THEN <<n, 0>>                       \* 0/0 and x/0 are kept visible, never hidden
  ELSE LET s == IF d < 0 THEN -1 ELSE 1
           g == Gcd(AbsI(n), AbsI(d))
       IN  <<(s * n) \div g, (s * d) \div g>>

R(n)        == <<n, 1>>
RAdd(p, q)  == Norm(p[1] * q[2] + q[1] * p[2], p[2] * q[2])
RSub(p, q)  == Norm(p[1] * q[2] - q[1] * p[2], p[2] * q[2])
RMul(p, q)  == Norm(p[1] * q[1], p[2] * q[2])
RDiv(p, q)  == Norm(p[1] * q[2], p[2] * q[1])
RLeq(p, q)  == p[1] * q[2] <= q[1] * p[2]
RLt(p, q)   == p[1] * q[2] <  q[1] * p[2]
REq(p, q)   == p[1] * q[2] =  q[1] * p[2]
RAbs(p)     == <<AbsI(p[1]), p[2]>>
RMin(p, q)  == IF RLeq(p, q) THEN p ELSE q
RMax(p, q)  == IF RLeq(p, q) THEN q ELSE p
IsDefined(p) == p[2] # 0
InUnit(p)   == IsDefined(p) /\ RLeq(<<0, 1>>, p) /\ RLeq(p, <<1, 1>>)

(* util.f_measure: the documented 0/0 convention, then (1+b^2) P R / (b^2 P + R);  b2 = beta^2 *)
FMeasure(P, Rc, b2) ==
  IF P[1] = 0 /\ Rc[1] = 0 THEN <<0, 1>>
  ELSE RDiv(RMul(RAdd(R(1), b2), RMul(P, Rc)), RAdd(RMul(b2, P), Rc))

RECURSIVE RSumSeq(_)
RSumSeq(s) == IF s = <<>> THEN <<0, 1>> ELSE RAdd(Head(s), RSumSeq(Tail(s)))

(* sum of a rational-valued function over a finite subset of its domain *)
RECURSIVE RSumOver(_, _)
RSumOver(f, S) == IF S = {} THEN <<0, 1>> ELSE LET x == CHOOSE x \in S : TRUE IN RAdd(f[x], RSumOver(f, S \ {x}))

RECURSIVE SumSeq(_)
SumSeq(s) == IF s = <<>> THEN 0 ELSE Head(s) + SumSeq(Tail(s))

RECURSIVE SumSet(_)
SumSet(S) == IF S = {} THEN 0 ELSE LET x == CHOOSE x \in S : TRUE IN x + SumSet(S \ {x})

(* sum of the second components of a set of <<key, value>> pairs (keys make equal values distinct) *)
RECURSIVE SumSet0(_)
SumSet0(S) == IF S = {} THEN 0 ELSE LET x == CHOOSE x \in S : TRUE IN x[2] + SumSet0(S \ {x})

MaxSet(S) == CHOOSE m \in S : \A k \in S : k <= m
MinSet(S) == CHOOSE m \in S : \A k \in S : m <= k

(* nondecreasing / strictly increasing sequences over a finite set of integers, length <= n *)
SeqsUpTo(S, n) == UNION {[1..k -> S] : k \in 0..n}
IsSorted(s)   == \A i \in 1..(Len(s) - 1) : s[i] <= s[i + 1]
IsStrict(s)   == \A i \in 1..(Len(s) - 1) : s[i] <  s[i + 1]
SortedSeqs(S, n) == {s \in SeqsUpTo(S, n) : IsSorted(s)}
StrictSeqs(S, n) == {s \in SeqsUpTo(S, n) : IsStrict(s)}
=============================================================================
