SPECIFICATION Spec
POSTCONDITION AllConsumed
