----------------------------- MODULE Trace_Rel -----------------------------
(* Judges pairs of recorded outcomes  a = f(x),  b = f(T(x))  against the relation tables of   *)
(* Relations.tla.  rel: "swap" (C06), "mono" (C07), "same" (bit-identical: C08 shift/permute/   *)
(* relabel, C09 octave, C12 split), "close" (1e-9), "perfect" (C02: every position is its       *)
(* optimum, given as the list opt of "is1"/"is0"/"any").  Verdicts are total.                   *)
EXTENDS Relations, TLC, Json, IOUtils
TraceLog == JsonDeserialize(IOEnv.TRACE_FILE)
VARIABLES i, done
vars == <<i, done>>
Checks(ev) ==
  CASE ev.rel = "swap" -> SwapSpec(ev.fn)
    [] ev.rel = "mono" -> MonoSpec(ev.fn)
    [] ev.rel = "same" -> Same("biteq", Len(ev.a))
    [] ev.rel = "close" -> Same("close", Len(ev.a))
    [] ev.rel = "perfect" -> [k \in 1..Len(ev.a) |-> <<ev.opt[k], k, k>>]          \* optimum given in the event (C12)
    [] ev.rel = "perfect2" -> LET o == PerfectSpec(ev.fn) IN
                              IF Len(o) # Len(ev.a) THEN <<<<"arity", 1, 1>>>> ELSE [k \in 1..Len(o) |-> <<o[k], k, k>>]
FirstBad(ev) ==
  LET cs == Checks(ev)
      bad == {k \in 1..Len(cs) : cs[k][1] # "any" /\ (cs[k][1] = "arity" \/ ~Holds(cs[k], ev.a, ev.b))}
  IN  IF Len(ev.a) # Len(ev.b) THEN "arity-differs"
      ELSE IF ev.aexc # ev.bexc THEN "outcome-class-differs"
      ELSE IF ev.aexc # "ok" THEN "ok"           \* both rejected the input in the same way
      ELSE IF bad = {} THEN "ok"
      ELSE LET k == CHOOSE x \in bad : \A y \in bad : x <= y IN
           cs[k][1] \o "@" \o ToString(cs[k][2]) \o "/" \o ToString(cs[k][3])
Init == i \in 1..Len(TraceLog) /\ done = FALSE
Next == /\ ~done /\ done' = TRUE /\ UNCHANGED i
        /\ LET v == FirstBad(TraceLog[i]) IN
             v # "ok" => PrintT("REJECT" \o ToJson([tid |-> TraceLog[i].tid, clause |-> v]))
Spec == Init /\ [][Next]_vars
=============================================================================
