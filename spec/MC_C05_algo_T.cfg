SPECIFICATION Spec
CONSTANTS NL = 3
          NR = 4
INVARIANT Valid
INVARIANT BergeInv
INVARIANT DoneMax
PROPERTY Grows
