SPECIFICATION Spec
CONSTANTS PMax = 12
          NR = 6
          Family = "free"
          NE = 3
INVARIANT SelfPerfect
INVARIANT ContNested
INVARIANT Export
