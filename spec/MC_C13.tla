------------------------------ MODULE MC_C13 ------------------------------
(* Generators for the interval pre-processing functions (C13).  Kind selects the function: *)
(*  "adjust"  every time-ordered interval list (<= NI intervals, endpoints on 0..P, gaps    *)
(*            allowed) x labels x every t_min, t_max in {none} u 0..P+1: every coincidence   *)
(*            of a crop point with a boundary, inside an interval, in a gap, beyond an end   *)
(*  "merge"   every pair of contiguous segmentations of 0..P                                 *)
(*  "interp"  interval lists on the even lattice x non-decreasing sample points on 0..P+1   *)
(*  "samples" intervals_to_samples: grids (offset, size)                                     *)
(*  "bounds"  boundaries <-> intervals round trip on contiguous segmentations                *)
(*  "events"  adjust_events                                                                  *)
(* TLC checks, on every input, that the constructive reading of the documentation           *)
(* (AdjustSpec, MergeSpec) satisfies the semantic verdict (the two formulations agree).     *)
EXTENDS Intervals, TLC, Json
CONSTANTS Kind, P, NI, Labels, NP
VARIABLES inp, out, pc
vars == <<inp, out, pc>>

Pts == 0..P
(* ordered interval lists: pick the 2k endpoints as a sorted sequence, pair them up *)
EndPts(k, S) == {s \in [1..(2 * k) -> S] :
                   \A i \in 1..(2 * k - 1) : IF i % 2 = 1 THEN s[i] < s[i + 1] ELSE s[i] <= s[i + 1]}
IvLists(n, S) == UNION {{[i \in 1..k |-> <<s[2 * i - 1], s[2 * i]>>] : s \in EndPts(k, S)} : k \in 1..n}
ContigLists(n, lo, hi) ==
  {IntervalsOf(SortSet(T \cup {lo, hi})) : T \in {X \in SUBSET ((lo + 1)..(hi - 1)) : Cardinality(X) <= n - 1}}
LabelSeqs(k) == [1..k -> Labels]
TOpt == {NONE_T} \cup (0..(P + 1))

Labelled(ivset) == UNION {{[ivs |-> iv, labs |-> l] : l \in LabelSeqs(Len(iv))} : iv \in ivset}
InitAdjust == /\ inp \in {[ivs |-> x.ivs, labs |-> x.labs, tmin |-> a, tmax |-> b] :
                            x \in Labelled(IvLists(NI, Pts)), a \in TOpt, b \in TOpt}
              /\ AdjustDomain(inp.ivs, inp.tmin, inp.tmax)
(* labels sequence is generated at full length NI and truncated to the number of intervals  *)
Trunc(l, k) == [i \in 1..k |-> l[i]]

InitMerge == inp \in {[xi |-> x.ivs, xl |-> x.labs, yi |-> y.ivs, yl |-> y.labs] :
                        x \in Labelled(ContigLists(NI, 0, P)), y \in Labelled(ContigLists(NI, 0, P))}
EvenPts == {2 * k : k \in 0..(P \div 2)}
InitInterp == inp \in {[ivs |-> x.ivs, labs |-> x.labs, pts |-> p] :
                        x \in Labelled(IvLists(NI, EvenPts)), p \in SortedSeqs(0..(P + 1), NP)}
InitSamples == inp \in {[ivs |-> x.ivs, labs |-> x.labs, offset |-> o, size |-> s] :
                        x \in Labelled(IvLists(NI, Pts)), o \in {0, 1}, s \in {1, 2, 3}}
InitBounds == inp \in {[ivs |-> iv] : iv \in UNION {ContigLists(NI + 1, a, P) : a \in 0..1}}
InitEvents == inp \in {[evs |-> e, tmin |-> a, tmax |-> b] :
                        e \in (SortedSeqs(Pts, NP) \ {<<>>}), a \in TOpt, b \in TOpt}
              /\ LET lo == IF inp.tmin = NONE_T THEN inp.evs[1] ELSE inp.tmin
                     hi == IF inp.tmax = NONE_T THEN inp.evs[Len(inp.evs)] ELSE inp.tmax
                 IN  \E i \in 1..Len(inp.evs) : lo <= inp.evs[i] /\ inp.evs[i] <= hi

Init == /\ out = <<>> /\ pc = "in"
        /\ CASE Kind = "adjust"  -> InitAdjust
             [] Kind = "merge"   -> InitMerge
             [] Kind = "interp"  -> InitInterp
             [] Kind = "samples" -> InitSamples
             [] Kind = "bounds"  -> InitBounds
             [] Kind = "events"  -> InitEvents

Solve == /\ pc = "in" /\ pc' = "out" /\ UNCHANGED inp
         /\ out' = CASE Kind = "adjust" ->
                        LET l == Trunc(inp.labs, Len(inp.ivs)) IN
                        [spec |-> AdjustSpec(inp.ivs, l, inp.tmin, inp.tmax, "S", "E"),
                         class |-> AdjustClass(inp.ivs, inp.tmin, inp.tmax)]
                   [] Kind = "merge" -> [spec |-> MergeSpec(inp.xi, inp.xl, inp.yi, inp.yl)]
                   [] Kind = "interp" -> [spec |-> InterpSpec(inp.ivs, inp.labs, inp.pts, "F")]
                   [] Kind = "samples" ->
                        LET t == SampleTimes(inp.ivs, inp.offset, inp.size) IN
                        [times |-> t, spec |-> InterpSpec(inp.ivs, inp.labs, t, "F")]
                   [] Kind = "bounds" -> [b |-> BoundariesOf(inp.ivs), back |-> IntervalsOf(BoundariesOf(inp.ivs))]
                   [] Kind = "events" -> [spec |-> AdjustEventsSpec(inp.evs, inp.tmin, inp.tmax)]
Next == Solve
Spec == Init /\ [][Next]_vars

(* the constructive reading satisfies the semantic specification on every input *)
SpecAgrees ==
  pc = "out" =>
    CASE Kind = "adjust" ->
           AdjustVerdict(inp.ivs, Trunc(inp.labs, Len(inp.ivs)), inp.tmin, inp.tmax, "S", "E",
                         out.spec.ivs, out.spec.labs) = "ok"
      [] Kind = "merge" ->
           MergeVerdict(inp.xi, inp.xl, inp.yi, inp.yl, out.spec.ivs, out.spec.xl, out.spec.yl) = "ok"
      [] Kind = "bounds" -> out.back = inp.ivs
      [] OTHER -> TRUE
Export == pc = "out" => PrintT("ROW" \o ToJson([kind |-> Kind, inp |-> inp, out |-> out]))
=============================================================================
