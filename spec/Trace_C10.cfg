SPECIFICATION Spec
