------------------------------- MODULE Chord -------------------------------
(* Harte chord labels: abstract syntax, a recogniser over token sequences written from the   *)
(* documented grammar  root[:shorthand][(degrees)][/bass] | N | X,  the encoding             *)
(* (root, 12-bit semitone bitmap, bass) defined from DEGREE LISTS (not from the code's       *)
(* literal bitmaps), and the twelve comparison rules on encodings.                            *)
(*                                                                                            *)
(* An AST is [kind |-> "N" | "X" | "chord", letter, acc, sh, degs, bass] where                *)
(*   acc  : number of sharps (positive) or flats (negative) after the letter                  *)
(*   sh   : a shorthand name, "none" (no ':' part) or "paren" (':(...)' without shorthand)     *)
(*   degs : sequence of [omit, acc, num];  bass : <<>> (absent) or <<[acc, num]>>             *)
EXTENDS Integers, Sequences, FiniteSets

Letters == {"A", "B", "C", "D", "E", "F", "G"}
LetterSemi(l) == CASE l = "C" -> 0 [] l = "D" -> 2 [] l = "E" -> 4 [] l = "F" -> 5
                   [] l = "G" -> 7 [] l = "A" -> 9 [] l = "B" -> 11
(* semitones of the major-scale degrees 1..13 *)
DegSemi(n) == CASE n = 1 -> 0 [] n = 2 -> 2 [] n = 3 -> 4 [] n = 4 -> 5 [] n = 5 -> 7 [] n = 6 -> 9
                [] n = 7 -> 11 [] n = 8 -> 12 [] n = 9 -> 14 [] n = 10 -> 16 [] n = 11 -> 17
                [] n = 12 -> 19 [] n = 13 -> 21
Semi(d) == DegSemi(d.num) + d.acc            \* may be negative (b1) or >= 12 (9, 11, 13)

D(a, n) == [acc |-> a, num |-> n]
(* shorthand -> the degrees it stands for (Harte 2005, table of shorthands; mir_eval docs)   *)
WordShorthands == {"maj", "min", "dim", "aug", "sus2", "sus4", "maj6", "min6", "maj7", "min7", "dim7",
                   "hdim7", "minmaj7", "aug7", "maj9", "min9", "maj11", "min11", "maj13", "min13"}
NumShorthands == {"1", "5", "7", "9", "11", "13"}
Shorthands == WordShorthands \cup NumShorthands
Supported == Shorthands \ {"aug7", "maj11"}        \* in the grammar, but mir_eval defines no quality for them
ShDegs(sh) ==
  CASE sh = "maj"  -> {D(0,1), D(0,3), D(0,5)}
    [] sh = "min"  -> {D(0,1), D(-1,3), D(0,5)}
    [] sh = "dim"  -> {D(0,1), D(-1,3), D(-1,5)}
    [] sh = "aug"  -> {D(0,1), D(0,3), D(1,5)}
    [] sh = "sus4" -> {D(0,1), D(0,4), D(0,5)}
    [] sh = "sus2" -> {D(0,1), D(0,2), D(0,5)}
    [] sh = "7"    -> {D(0,1), D(0,3), D(0,5), D(-1,7)}
    [] sh = "maj7" -> {D(0,1), D(0,3), D(0,5), D(0,7)}
    [] sh = "min7" -> {D(0,1), D(-1,3), D(0,5), D(-1,7)}
    [] sh = "minmaj7" -> {D(0,1), D(-1,3), D(0,5), D(0,7)}
    [] sh = "maj6" -> {D(0,1), D(0,3), D(0,5), D(0,6)}
    [] sh = "min6" -> {D(0,1), D(-1,3), D(0,5), D(0,6)}
    [] sh = "dim7" -> {D(0,1), D(-1,3), D(-1,5), D(-2,7)}
    [] sh = "hdim7" -> {D(0,1), D(-1,3), D(-1,5), D(-1,7)}
    [] sh = "maj9" -> {D(0,1), D(0,3), D(0,5), D(0,7), D(0,9)}
    [] sh = "min9" -> {D(0,1), D(-1,3), D(0,5), D(-1,7), D(0,9)}
    [] sh = "9"    -> {D(0,1), D(0,3), D(0,5), D(-1,7), D(0,9)}
    [] sh = "min11" -> {D(0,1), D(-1,3), D(0,5), D(-1,7), D(0,9), D(0,11)}
    [] sh = "11"   -> {D(0,1), D(0,3), D(0,5), D(-1,7), D(0,9), D(0,11)}
    [] sh = "maj13" -> {D(0,1), D(0,3), D(0,5), D(0,7), D(0,9), D(0,11), D(0,13)}
    [] sh = "min13" -> {D(0,1), D(-1,3), D(0,5), D(-1,7), D(0,9), D(0,11), D(0,13)}
    [] sh = "13"   -> {D(0,1), D(0,3), D(0,5), D(-1,7), D(0,9), D(0,11), D(0,13)}
    [] sh = "1"    -> {D(0,1)}
    [] sh = "5"    -> {D(0,1), D(0,5)}
    [] sh = "none" -> {D(0,1), D(0,3), D(0,5)}     \* a bare root is a major triad
    [] sh = "paren" -> {}                          \* ':(...)' : only what is listed (plus the root)
(* the extension degrees that "reduce_extended_chords" splits off the shorthand (docs table)  *)
Extensions(sh) == {d \in ShDegs(sh) : Semi(d) >= 12}

(* ------------------------------------------------------------------ encoding ---------- *)
INVALID == [root |-> -2, bits |-> [i \in 0..11 |-> 0], bass |-> -2]   \* "raises InvalidChordException"
IsInvalid(e) == e.root = -2
NEnc == [root |-> -1, bits |-> [i \in 0..11 |-> 0], bass |-> -1]
XEnc == [root |-> -1, bits |-> [i \in 0..11 |-> -1], bass |-> -1]

(* the code keeps a SET of degree strings; when reducing, the shorthand's extension degrees join *)
(* that set (so an explicitly listed '9' and the 9 of 'C:9' are one element)                      *)
DegSet(ast, reduce) ==
  {ast.degs[i] : i \in 1..Len(ast.degs)} \cup
  (IF reduce THEN {[omit |-> FALSE, acc |-> d.acc, num |-> d.num] : d \in Extensions(ast.sh)} ELSE {})
(* contribution of the shorthand itself: its degrees inside the octave *)
BaseBit(ast, s) == IF \E d \in ShDegs(ast.sh) : Semi(d) < 12 /\ Semi(d) = s THEN 1 ELSE 0
(* listed degrees: +1 for an addition, -1 for an omission ('*'); beyond the octave only when   *)
(* reducing (folded modulo 12).  Contributions are summed, the bit is set when the sum is > 0.  *)
Edits(ast, reduce, s) ==
  LET hits == {d \in DegSet(ast, reduce) : (Semi(d) < 12 \/ reduce) /\ Semi(d) % 12 = s}
  IN  Cardinality({d \in hits : ~d.omit}) - Cardinality({d \in hits : d.omit})
RootBit(s) == IF s = 0 THEN 1 ELSE 0
Encode(ast, reduce, strict) ==
  IF ast.kind = "N" THEN NEnc
  ELSE IF ast.kind = "X" THEN XEnc
  ELSE IF ast.sh \notin (Supported \cup {"none", "paren"}) THEN INVALID
  ELSE
    LET root == (LetterSemi(ast.letter) + ast.acc) % 12
        bass == IF ast.bass = <<>> THEN 0 ELSE Semi(ast.bass[1]) % 12
        raw  == [s \in 0..11 |->
                   IF (IF BaseBit(ast, s) = 1 \/ s = 0 THEN 1 ELSE 0) + Edits(ast, reduce, s) > 0
                   THEN 1 ELSE 0]
    IN  IF strict /\ raw[bass] = 0 THEN INVALID
        ELSE [root |-> root, bits |-> [s \in 0..11 |-> IF s = bass THEN 1 ELSE raw[s]], bass |-> bass]

(* ------------------------------------------------------------------ recogniser -------- *)
(* Tokens (strings): letters "A".."G", "N", "X", "b", "#", ":", "(", ")", ",", "*", "/",         *)
(* shorthand words "w<name>", digit runs "d<text>", and "?" for any other character.             *)
DegToks == {"d1", "d2", "d3", "d4", "d5", "d6", "d7", "d8", "d9", "d10", "d11", "d12", "d13"}
DegNum(t) == CASE t = "d1" -> 1 [] t = "d2" -> 2 [] t = "d3" -> 3 [] t = "d4" -> 4 [] t = "d5" -> 5
               [] t = "d6" -> 6 [] t = "d7" -> 7 [] t = "d8" -> 8 [] t = "d9" -> 9 [] t = "d10" -> 10
               [] t = "d11" -> 11 [] t = "d12" -> 12 [] t = "d13" -> 13
NumShTok(t) == t \in {"d1", "d5", "d7", "d9", "d11", "d13"}
WordTok(t) == \E w \in WordShorthands : t = "w" \o w
Tok(toks, p) == IF p <= Len(toks) THEN toks[p] ELSE "<end>"
(* a run of flats or a run of sharps (never mixed): returns <<next position, signed count>>      *)
RECURSIVE Run(_, _, _)
Run(toks, p, c) == IF Tok(toks, p) = c THEN Run(toks, p + 1, c) ELSE p
AccAt(toks, p) ==
  IF Tok(toks, p) = "b" THEN LET q == Run(toks, p, "b") IN <<q, p - q>>
  ELSE IF Tok(toks, p) = "#" THEN LET q == Run(toks, p, "#") IN <<q, q - p>>
  ELSE <<p, 0>>
FAIL == [ok |-> FALSE]
(* degree := acc* NUM *)
DegreeAt(toks, p) ==
  LET a == AccAt(toks, p) IN
  IF Tok(toks, a[1]) \in DegToks THEN [ok |-> TRUE, pos |-> a[1] + 1, acc |-> a[2], num |-> DegNum(Tok(toks, a[1]))]
  ELSE FAIL
(* deglist := ['*'] degree { ',' ['*'] degree } *)
RECURSIVE DegListAt(_, _, _)
DegListAt(toks, p, acc) ==
  LET star == Tok(toks, p) = "*"
      d == DegreeAt(toks, IF star THEN p + 1 ELSE p)
  IN  IF ~d.ok THEN FAIL
      ELSE LET item == [omit |-> star, acc |-> d.acc, num |-> d.num]
               sofar == Append(acc, item)
           IN  IF Tok(toks, d.pos) = "," THEN DegListAt(toks, d.pos + 1, sofar)
               ELSE [ok |-> TRUE, pos |-> d.pos, degs |-> sofar]
ParenAt(toks, p) ==     \* '(' deglist ')'
  IF Tok(toks, p) # "(" THEN FAIL
  ELSE LET l == DegListAt(toks, p + 1, <<>>) IN
       IF l.ok /\ Tok(toks, l.pos) = ")" THEN [ok |-> TRUE, pos |-> l.pos + 1, degs |-> l.degs] ELSE FAIL
ShName(t) == IF WordTok(t) THEN CHOOSE w \in WordShorthands : t = "w" \o w
             ELSE CASE t = "d1" -> "1" [] t = "d5" -> "5" [] t = "d7" -> "7" [] t = "d9" -> "9"
                    [] t = "d11" -> "11" [] t = "d13" -> "13"
REJECT == [ok |-> FALSE]
Parse(toks) ==
  IF toks = <<"N">> THEN [ok |-> TRUE, ast |-> [kind |-> "N"]]
  ELSE IF toks = <<"X">> THEN [ok |-> TRUE, ast |-> [kind |-> "X"]]
  ELSE IF Tok(toks, 1) \notin Letters THEN REJECT
  ELSE
    LET a == AccAt(toks, 2)
        p == a[1]
        \* quality part
        q == IF Tok(toks, p) # ":" THEN [ok |-> TRUE, pos |-> p, sh |-> "none", degs |-> <<>>]
             ELSE IF WordTok(Tok(toks, p + 1)) \/ NumShTok(Tok(toks, p + 1))
                  THEN LET sh == ShName(Tok(toks, p + 1)) IN
                       IF Tok(toks, p + 2) = "("
                       THEN LET l == ParenAt(toks, p + 2) IN
                            IF l.ok THEN [ok |-> TRUE, pos |-> l.pos, sh |-> sh, degs |-> l.degs] ELSE FAIL
                       ELSE [ok |-> TRUE, pos |-> p + 2, sh |-> sh, degs |-> <<>>]
                  ELSE LET l == ParenAt(toks, p + 1) IN
                       IF l.ok THEN [ok |-> TRUE, pos |-> l.pos, sh |-> "paren", degs |-> l.degs] ELSE FAIL
    IN IF ~q.ok THEN REJECT
       ELSE
         LET b == IF Tok(toks, q.pos) = "/"
                  THEN LET d == DegreeAt(toks, q.pos + 1) IN
                       IF d.ok THEN [ok |-> TRUE, pos |-> d.pos, bass |-> <<[acc |-> d.acc, num |-> d.num]>>] ELSE FAIL
                  ELSE [ok |-> TRUE, pos |-> q.pos, bass |-> <<>>]
         IN IF ~b.ok \/ b.pos # Len(toks) + 1 THEN REJECT
            ELSE [ok |-> TRUE, ast |-> [kind |-> "chord", letter |-> toks[1], acc |-> a[2], sh |-> q.sh,
                                       degs |-> q.degs, bass |-> b.bass]]

(* ------------------------------------------------------------------ comparisons ------- *)
(* on encodings r (reference) and e (estimate); values 1 match, 0 mismatch, -1 ignored        *)
IsX(r) == \E s \in 0..11 : r.bits[s] < 0
B2I(b) == IF b THEN 1 ELSE 0
Prefix8Eq(r, e) == \A s \in 0..7 : r.bits[s] = e.bits[s]
AllEq(r, e) == \A s \in 0..11 : r.bits[s] = e.bits[s]
Thirds(r, e)     == IF IsX(r) THEN -1 ELSE B2I(r.root = e.root /\ r.bits[3] = e.bits[3])
ThirdsInv(r, e)  == IF IsX(r) THEN -1 ELSE B2I(r.root = e.root /\ r.bits[3] = e.bits[3] /\ r.bass = e.bass)
Triads(r, e)     == IF IsX(r) THEN -1 ELSE B2I(r.root = e.root /\ Prefix8Eq(r, e))
TriadsInv(r, e)  == IF IsX(r) THEN -1 ELSE B2I(r.root = e.root /\ Prefix8Eq(r, e) /\ r.bass = e.bass)
Tetrads(r, e)    == IF IsX(r) THEN -1 ELSE B2I(r.root = e.root /\ AllEq(r, e))
TetradsInv(r, e) == IF IsX(r) THEN -1 ELSE B2I(r.root = e.root /\ AllEq(r, e) /\ r.bass = e.bass)
Root(r, e)       == IF IsX(r) THEN -1 ELSE B2I(r.root = e.root)
(* MIREX: at least three pitch classes in common (absolute chroma); N vs N matches; a reference *)
(* with one or two pitch classes, or X, is ignored                                              *)
(* an X ESTIMATE counts as containing every pitch class (mir_eval rotates its all -1 bitmap to   *)
(* an all-ones chroma); named deviation, see DESIGN.md                                          *)
Chroma(x) == IF \E s \in 0..11 : x.bits[s] < 0 THEN 0..11
             ELSE IF x.root < 0 THEN {s \in 0..11 : x.bits[s] > 0}
             ELSE {(s + x.root) % 12 : s \in {t \in 0..11 : x.bits[t] > 0}}
PosBits(x) == Cardinality({s \in 0..11 : x.bits[s] > 0})
Mirex(r, e) ==
  IF IsX(r) \/ (PosBits(r) > 0 /\ PosBits(r) < 3) THEN -1
  ELSE IF r.root = -1 /\ e.root = -1 THEN 1
  ELSE B2I(Cardinality(Chroma(r) \cap Chroma(e)) >= 3)
PatternIs(r, sh, upto) == \A s \in 0..upto : r.bits[s] = (IF \E d \in ShDegs(sh) : Semi(d) = s THEN 1 ELSE 0)
IsNEnc(r) == r.root < 0 /\ \A s \in 0..11 : r.bits[s] = 0
(* vocabulary of majmin: N, or a chord whose semitones 0..7 are exactly a major or minor triad  *)
(* (mir_eval's and MIREX's reading: C:7 is scored through its triad)                            *)
MajMinVocab(r) == IsNEnc(r) \/ PatternIs(r, "maj", 7) \/ PatternIs(r, "min", 7)
MajMin(r, e)    == IF ~MajMinVocab(r) THEN -1 ELSE B2I(r.root = e.root /\ Prefix8Eq(r, e))
BassIsChordTone(r) == r.bass < 0 \/ r.bits[r.bass] > 0
MajMinInv(r, e) == IF ~MajMinVocab(r) \/ ~BassIsChordTone(r) THEN -1
                   ELSE B2I(r.root = e.root /\ r.bass = e.bass /\ Prefix8Eq(r, e))
SeventhsVocab(r) == \/ \A s \in 0..11 : r.bits[s] = 0
                    \/ \E sh \in {"maj", "min", "maj7", "7", "min7"} : PatternIs(r, sh, 11)
Sevenths(r, e)    == IF ~SeventhsVocab(r) THEN -1 ELSE B2I(r.root = e.root /\ AllEq(r, e))
SeventhsInv(r, e) == IF ~SeventhsVocab(r) \/ ~BassIsChordTone(r) THEN -1
                     ELSE B2I(r.root = e.root /\ r.bass = e.bass /\ AllEq(r, e))
RuleNames == <<"thirds", "thirds_inv", "triads", "triads_inv", "tetrads", "tetrads_inv", "root", "mirex",
               "majmin", "majmin_inv", "sevenths", "sevenths_inv">>
Compare(r, e) == <<Thirds(r, e), ThirdsInv(r, e), Triads(r, e), TriadsInv(r, e), Tetrads(r, e), TetradsInv(r, e),
                   Root(r, e), Mirex(r, e), MajMin(r, e), MajMinInv(r, e), Sevenths(r, e), SeventhsInv(r, e)>>
=============================================================================
