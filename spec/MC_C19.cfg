SPECIFICATION Spec
CONSTANTS Ls = {4, 5}
          Windows = {2, 3, 5}
          Hops = {1, 2}
INVARIANT WindowsFit
INVARIANT NextWouldNotFit
INVARIANT AllHandled
INVARIANT Export
