SPECIFICATION Spec
CONSTANTS RefFam = "big"
          EstFam = "big"
          Offsets = {0, 3, 4, 7}
          Transpose = FALSE
INVARIANT Lattice
INVARIANT IgnoredByReferenceAlone
INVARIANT TransposeInvariant
INVARIANT Export
