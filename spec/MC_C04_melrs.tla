--------------------------- MODULE MC_C04_melrs ---------------------------
(* melody.evaluate end to end: reference on a unit grid (optionally starting late), estimate on  *)
(* its own grid (step 2, optionally starting late / ending early), pitches from a coarse cent      *)
(* lattice with unvoiced-with-pitch frames: pre-processing and the five measures by specification.  *)
EXTENDS MelodyPre, TLC, Json
CONSTANTS NR, NE, Cs
VARIABLES ref, est, out, pc
vars == <<ref, est, out, pc>>
Frame == {[c |-> c, v |-> v] : c \in Cs, v \in BOOLEAN} \ {[c |-> 0, v |-> TRUE]}
Series(n, t0, step) == {[t |-> [k \in 1..n |-> t0 + step * (k - 1)], c |-> [k \in 1..n |-> f[k].c], v |-> [k \in 1..n |-> f[k].v]] : f \in [1..n -> Frame]}
Init == /\ ref \in UNION {Series(n, t0, 1) : n \in 2..NR, t0 \in {0, 1}}
        /\ est \in UNION {Series(m, t0, 2) : m \in 2..NE, t0 \in {0, 1}} \cup UNION {Series(n, 0, 1) : n \in {Len(ref.t)}}
        /\ out = <<>> /\ pc = "in"
Solve == /\ pc = "in" /\ pc' = "out" /\ UNCHANGED <<ref, est>>
         /\ LET x == ToCentVoicing(ref, est) IN
            out' = [cv |-> x, recall |-> VoicingRecall(x.rv, x.ev), fa |-> VoicingFalseAlarm(x.rv, x.ev),
                    rpa |-> RRaw(x.rv, x.rc, x.ec, 50, FALSE), rca |-> RRaw(x.rv, x.rc, x.ec, 50, TRUE),
                    oa |-> ROverall(x.rv, x.rc, x.ev, x.ec, 50)]
Next == Solve
Spec == Init /\ [][Next]_vars
Sane == pc = "out" => InUnit(out.recall) /\ InUnit(out.fa) /\ InUnit(out.rpa) /\ InUnit(out.rca) /\ InUnit(out.oa) /\ RLeq(out.rpa, out.rca)
Export == pc = "out" => PrintT("ROW" \o ToJson([ref |-> ref, est |-> est, out |-> out]))
=============================================================================
