--------------------------- MODULE MC_C05_algo ---------------------------
(* The matching algorithm of util._bipartite_match as an abstract state machine:            *)
(*   Greedy  - any maximal matching (the code's greedy initialisation, any vertex order)    *)
(*   Phase   - one Hopcroft-Karp phase: a strictly larger matching that keeps every          *)
(*             already-matched vertex matched (augmentation along >= 1 disjoint paths)       *)
(*   Finish  - taken only when no augmenting path exists                                     *)
(* Checked for EVERY bipartite graph with NL x NR vertices and every resolution of the      *)
(* nondeterminism: the matching is always valid, the machine can never get stuck before     *)
(* Finish (deadlock check on), and at Finish the matching is maximum (Berge).               *)
EXTENDS Matching, TLC, Randomization
CONSTANTS NL, NR, K, Dens
VARIABLES E, M, pc
vars == <<E, M, pc>>
AllEdges == (1..NL) \X (1..NR)

Init == E \in SUBSET AllEdges /\ M = {} /\ pc = "greedy"
(* larger vertex sets than can be enumerated: K random graphs with about Dens edges each (cfg: INIT InitSample) *)
InitSample == E \in RandomSetOfSubsets(K, Dens, AllEdges) /\ M = {} /\ pc = "greedy"

Greedy == /\ pc = "greedy"
          /\ \E M2 \in SUBSET E : IsMatching(M2, E) /\ IsMaximal(M2, E) /\ M' = M2
          /\ pc' = "phase" /\ UNCHANGED E

Phase == /\ pc = "phase"
         /\ ~NoAugmentingPath(M, E, NL, NR)
         /\ \E M2 \in SUBSET E :
               /\ IsMatching(M2, E)
               /\ Cardinality(M2) > Cardinality(M)
               /\ LeftOf(M) \subseteq LeftOf(M2) /\ RightOf(M) \subseteq RightOf(M2)
               /\ M' = M2
         /\ UNCHANGED <<E, pc>>

Finish == pc = "phase" /\ NoAugmentingPath(M, E, NL, NR) /\ pc' = "done" /\ UNCHANGED <<E, M>>
Done   == pc = "done" /\ UNCHANGED vars

Next == Greedy \/ Phase \/ Finish \/ Done
Spec == Init /\ [][Next]_vars

Valid    == IsMatching(M, E)
BergeInv == (Cardinality(M) = MaxSize(NL, E)) <=> NoAugmentingPath(M, E, NL, NR)
DoneMax  == pc = "done" => Cardinality(M) = MaxSize(NL, E)
Grows    == [][Cardinality(M') >= Cardinality(M)]_vars
=============================================================================
