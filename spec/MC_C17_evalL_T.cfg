SPECIFICATION Spec
CONSTANTS T = 4
          NLR = 2
          NLE = 1
          NS = 2
          Labels = {"a", "b"}
          FS = {1}
          Windows = {0}
          EStarts = {0, 1}
          EEnds = {3, 5}
INVARIANT Aligned
INVARIANT InRange
INVARIANT Export
