SPECIFICATION Spec
POSTCONDITION AllGrouped
