----------------------------- MODULE Matching -----------------------------
(* Bipartite matching: the definition (largest one-to-one subset of the feasible pairs),    *)
(* a brute-force maximum, and the polynomial certificate (Berge: a matching is maximum iff  *)
(* it admits no augmenting path).  Left vertices 1..nL (reference items), right 1..nR       *)
(* (estimated items); an edge is <<i, j>>.                                                  *)
EXTENDS Integers, FiniteSets, Sequences

IsMatching(M, E) ==
  /\ M \subseteq E
  /\ \A p \in M : \A q \in M : (p[1] = q[1] \/ p[2] = q[2]) => p = q

LeftOf(M)  == {p[1] : p \in M}
RightOf(M) == {p[2] : p \in M}

(* size of a maximum matching, by exhaustive recursion over the left vertices *)
RECURSIVE MaxSizeRec(_, _, _)
MaxSizeRec(i, used, E) ==
  IF i = 0 THEN 0
  ELSE LET skip == MaxSizeRec(i - 1, used, E)
           opts == {e[2] : e \in {x \in E : x[1] = i /\ x[2] \notin used}}
           take == {1 + MaxSizeRec(i - 1, used \cup {j}, E) : j \in opts}
           all  == take \cup {skip}
       IN  CHOOSE m \in all : \A k \in all : k <= m
MaxSize(nL, E) == MaxSizeRec(nL, {}, E)

(* alternating reachability from the free left vertices: non-matching edges left->right,    *)
(* matching edges right->left                                                                *)
RECURSIVE AltReach(_, _, _)
AltReach(L, E, M) ==
  LET Rr == {e[2] : e \in {x \in E : x[1] \in L /\ x \notin M}}
      L2 == L \cup {m[1] : m \in {x \in M : x[2] \in Rr}}
  IN  IF L2 = L THEN L ELSE AltReach(L2, E, M)

NoAugmentingPath(M, E, nL, nR) ==
  LET freeL == {a \in 1..nL : a \notin LeftOf(M)}
      freeR == {b \in 1..nR : b \notin RightOf(M)}
      reach == AltReach(freeL, E, M)
  IN  \A e \in E : ~(e[1] \in reach /\ e \notin M /\ e[2] \in freeR)

IsMaximal(M, E) == \A e \in E : e[1] \in LeftOf(M) \/ e[2] \in RightOf(M)

(* certificate verdict used by the trace specifications: total, names the failing clause *)
MatchVerdict(M, E, nL, nR) ==
  IF ~(M \subseteq E) THEN "infeasible-pair"
  ELSE IF ~IsMatching(M, E) THEN "not-one-to-one"
  ELSE IF ~NoAugmentingPath(M, E, nL, nR) THEN "not-maximum"
  ELSE "ok"
=============================================================================
