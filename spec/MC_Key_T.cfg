SPECIFICATION Spec
CONSTANTS Transpose = TRUE
INVARIANT InRange
INVARIANT SelfPerfect
INVARIANT TransposeInvariant
INVARIANT Export
