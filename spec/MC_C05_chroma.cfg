SPECIFICATION Spec
CONSTANTS P = 7
          N = 2
          W = {0, 1, 3}
          Mode = "mod"
          Modulus = 6
INVARIANT Bound
INVARIANT SwapSym
INVARIANT SelfMatch
INVARIANT Export
