-------------------------------- MODULE Key --------------------------------
(* Key detection (MIREX weighted score) by its relationship table.  A key is                  *)
(* [tonic |-> pitch class 0..11, mode |-> "major"|"minor"|"other"] or XKEY (uncategorised).    *)
(* Spellings: the 17 tonic names mir_eval accepts, any letter case.                            *)
EXTENDS Integers, Sequences, Rat
XKEY == [tonic |-> -1, mode |-> "none"]
TonicNames == <<"c", "c#", "db", "d", "d#", "eb", "e", "f", "f#", "gb", "g", "g#", "ab", "a", "a#", "bb", "b">>
TonicSemi  == <<0, 1, 1, 2, 3, 3, 4, 5, 6, 6, 7, 8, 8, 9, 10, 10, 11>>
Modes == {"major", "minor", "other"}
(* score in twentieths... kept as a rational *)
WeightedScore(r, e) ==
  IF r = e THEN <<1, 1>>                                            \* same key (X vs X included)
  ELSE IF r = XKEY \/ e = XKEY THEN <<0, 1>>
  ELSE IF r.tonic = e.tonic /\ r.mode = e.mode THEN <<1, 1>>
  ELSE IF e.mode = r.mode /\ (e.tonic - r.tonic) % 12 = 7 THEN <<1, 2>>          \* estimate a perfect fifth above
  ELSE IF r.mode = "major" /\ e.mode # r.mode /\ (e.tonic - r.tonic) % 12 = 9 THEN <<3, 10>>   \* relative minor
  ELSE IF r.mode = "minor" /\ e.mode # r.mode /\ (e.tonic - r.tonic) % 12 = 3 THEN <<3, 10>>   \* relative major
  ELSE IF e.mode # r.mode /\ r.tonic = e.tonic THEN <<1, 5>>                     \* parallel
  ELSE <<0, 1>>
=============================================================================
