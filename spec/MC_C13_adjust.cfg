SPECIFICATION Spec
CONSTANTS Kind = "adjust"
          P = 5
          NI = 3
          NP = 0
          Labels = {"a", "b"}
INVARIANT SpecAgrees
INVARIANT Export
