SPECIFICATION Spec
CONSTANTS Kind = "merge"
          P = 6
          NI = 4
          NP = 0
          Labels = {"a", "b"}
INVARIANT SpecAgrees
INVARIANT Export
