SPECIFICATION Spec
CONSTANTS Kind = "T"
          T = 4
          NL = 3
          NS = 2
          Labels = {"a"}
          Windows = {0, 1, 2}
          FS = {1}
INVARIANT InRange
INVARIANT SelfPerfect
INVARIANT Export
