--------------------------------- MODULE Sep ---------------------------------
(* BSS-eval (C19): the parts a TLA+ specification can state exactly.                            *)
(*  Framewise skeleton: number of windows floor((L - window + hop) / hop); with fewer than two   *)
(*  windows the non-framewise result is returned (one column); window k covers the samples        *)
(*  [k*hop, k*hop + window); a window is NaN in EVERY metric iff some reference or estimated       *)
(*  source is silent (all zeros) inside it; the result has 4 (sources) or 5 (images) arrays.       *)
(*  Permutation: the returned vector is a permutation, maximises the summed SIR over all           *)
(*  assignments, and follows a reordering pi of the estimates as  perm' = pi^-1 o perm.            *)
(* Signals are abstracted to silence maps over equal-length blocks (1 = active, 0 = all zeros).   *)
EXTENDS Integers, Sequences, FiniteSets
NWin(L, window, hop) == (L - window + hop) \div hop
Fallback(L, window, hop) == NWin(L, window, hop) < 2
Columns(L, window, hop) == IF Fallback(L, window, hop) THEN 1 ELSE NWin(L, window, hop)
SilentIn(sig, lo, hi) == \A t \in (lo + 1)..hi : sig[t] = 0           \* sig is 1-indexed; slice [lo, hi)
AnySilent(sigs, lo, hi) == \E s \in 1..Len(sigs) : SilentIn(sigs[s], lo, hi)
NaNWindow(refs, ests, k, window, hop) == AnySilent(refs, k * hop, k * hop + window) \/ AnySilent(ests, k * hop, k * hop + window)
Arity(images) == IF images THEN 5 ELSE 4

Perms(n) == {p \in [1..n -> 1..n] : \A i, j \in 1..n : p[i] = p[j] => i = j}
RECURSIVE SumTo(_, _)
SumTo(f, n) == IF n = 0 THEN 0 ELSE f[n] + SumTo(f, n - 1)
(* sir[e][r]: SIR of estimate e evaluated as reference r; p[r] = estimate assigned to reference r *)
Total(sir, p, n) == SumTo([r \in 1..n |-> sir[p[r]][r]], n)
IsPerm(p, n) == Len(p) = n /\ \A i \in 1..n : p[i] \in 1..n /\ \A j \in 1..n : p[i] = p[j] => i = j
Optimal(sir, p, n, slack) == \A q \in Perms(n) : Total(sir, p, n) + slack >= Total(sir, q, n)
Inverse(pi, n) == [i \in 1..n |-> CHOOSE j \in 1..n : pi[j] = i]
=============================================================================
