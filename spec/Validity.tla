------------------------------ MODULE Validity ------------------------------
(* C14: valid annotations are always scored; malformed ones are rejected cleanly.             *)
(* The catalogue below is read from the "Conventions"/validator documentation of each task:   *)
(* for each single fault, the entry points whose validator is documented to check it and the  *)
(* exception class they must raise.  Valid(task) lists the valid shapes - including the        *)
(* degenerate ones the property names - on which every entry point must return.                *)
EXTENDS Integers, Sequences, FiniteSets
VE == "ValueError"
IC == "InvalidChordException"
F(task, fault, fns, expect) == [task |-> task, fault |-> fault, fns |-> fns, expect |-> expect]

BeatFns == {"beat.f_measure", "beat.cemgil", "beat.goto", "beat.p_score", "beat.continuity", "beat.information_gain", "beat.evaluate"}
SegBoundFns == {"segment.detection", "segment.deviation"}
SegLabFns == {"segment.pairwise", "segment.rand_index", "segment.ari", "segment.mutual_information", "segment.nce", "segment.vmeasure"}
ChordRuleFns == {"chord.thirds", "chord.thirds_inv", "chord.triads", "chord.triads_inv", "chord.tetrads", "chord.tetrads_inv",
                 "chord.root", "chord.mirex", "chord.majmin", "chord.majmin_inv", "chord.sevenths", "chord.sevenths_inv"}
ChordSegFns == {"chord.overseg", "chord.underseg", "chord.seg", "chord.directional_hamming_distance"}
MelodyFns == {"melody.raw_pitch_accuracy", "melody.raw_chroma_accuracy", "melody.overall_accuracy"}
NoteFns == {"transcription.precision_recall_f1_overlap", "transcription.evaluate"}
NoteIvFns == NoteFns \cup {"transcription.onset_precision_recall_f1", "transcription.offset_precision_recall_f1"}
VelFns == {"transcription_velocity.precision_recall_f1_overlap", "transcription_velocity.evaluate"}
PatFns == {"pattern.standard_FPR", "pattern.establishment_FPR", "pattern.occurrence_FPR", "pattern.three_layer_FPR",
           "pattern.first_n_three_layer_P", "pattern.first_n_target_proportion_R", "pattern.evaluate"}
AlignFns == {"alignment.absolute_error", "alignment.percentage_correct", "alignment.percentage_correct_segments",
             "alignment.karaoke_perceptual_metric", "alignment.evaluate"}
SepFns == {"separation.bss_eval_sources", "separation.bss_eval_images", "separation.bss_eval_sources_framewise",
           "separation.bss_eval_images_framewise"}

Catalogue == {
  F("beat", "ref-not-1d", BeatFns \ {"beat.evaluate"}, VE), F("beat", "est-not-1d", BeatFns \ {"beat.evaluate"}, VE),
  F("beat", "ref-time-too-large", BeatFns, VE), F("beat", "est-time-too-large", BeatFns, VE),
  F("beat", "ref-unsorted", BeatFns, VE), F("beat", "est-unsorted", BeatFns, VE),
  F("onset", "ref-not-1d", {"onset.f_measure", "onset.evaluate"}, VE), F("onset", "est-time-too-large", {"onset.f_measure", "onset.evaluate"}, VE),
  F("onset", "ref-unsorted", {"onset.f_measure", "onset.evaluate"}, VE), F("onset", "est-unsorted", {"onset.f_measure", "onset.evaluate"}, VE),
  F("segment", "ref-not-nx2", SegBoundFns \cup SegLabFns, VE), F("segment", "est-negative-time", SegBoundFns \cup SegLabFns, VE),
  F("segment", "ref-nonpositive-duration", SegBoundFns \cup SegLabFns, VE), F("segment", "est-nonpositive-duration", SegBoundFns \cup SegLabFns, VE),
  F("segment", "ref-labels-length", SegLabFns, VE), F("segment", "est-labels-length", SegLabFns, VE),
  F("segment", "ref-not-start-at-0", SegLabFns, VE), F("segment", "ends-differ", SegLabFns, VE),
  F("chord", "unequal-lengths", ChordRuleFns, VE), F("chord", "bad-ref-label", ChordRuleFns \cup {"chord.evaluate"}, IC),
  F("chord", "bad-est-label", ChordRuleFns \cup {"chord.evaluate"}, IC),
  F("chord", "bad-pitch-class", {"chord.pitch_class_to_semitone"}, IC), F("chord", "bad-scale-degree", {"chord.scale_degree_to_semitone"}, IC),
  F("chord", "weights-length", {"chord.weighted_accuracy"}, VE), F("chord", "negative-weight", {"chord.weighted_accuracy"}, VE),
  F("chord", "ref-overlap", {"chord.directional_hamming_distance", "chord.overseg", "chord.seg"}, VE),
  F("chord", "est-nonpositive-duration", ChordSegFns, VE), F("chord", "ref-not-nx2", ChordSegFns, VE),
  F("melody", "voicing-length", MelodyFns \cup {"melody.voicing_measures"}, VE), F("melody", "voicing-range", MelodyFns \cup {"melody.voicing_measures"}, VE),
  F("melody", "cent-length", MelodyFns, VE),
  F("multipitch", "ref-length-mismatch", {"multipitch.metrics", "multipitch.evaluate"}, VE),
  F("multipitch", "est-length-mismatch", {"multipitch.metrics", "multipitch.evaluate"}, VE),
  F("multipitch", "freq-too-low", {"multipitch.metrics", "multipitch.evaluate"}, VE),
  F("multipitch", "freq-too-high", {"multipitch.metrics", "multipitch.evaluate"}, VE),
  F("multipitch", "freq-2d", {"multipitch.metrics", "multipitch.evaluate"}, VE),
  F("multipitch", "time-2d", {"multipitch.metrics", "multipitch.evaluate"}, VE),
  F("multipitch", "time-unsorted", {"multipitch.metrics", "multipitch.evaluate"}, VE),
  F("transcription", "ref-pitch-length", NoteFns, VE), F("transcription", "est-pitch-length", NoteFns, VE),
  F("transcription", "nonpositive-pitch", NoteFns, VE), F("transcription", "ref-nonpositive-duration", NoteIvFns, VE),
  F("transcription", "est-not-nx2", NoteIvFns, VE), F("transcription", "est-negative-time", NoteIvFns, VE),
  F("transcription_velocity", "ref-velocity-length", VelFns, VE), F("transcription_velocity", "est-velocity-length", VelFns, VE),
  F("transcription_velocity", "negative-velocity", VelFns, VE), F("transcription_velocity", "negative-ref-velocity", VelFns, VE), F("transcription_velocity", "nonpositive-pitch", VelFns, VE),
  F("transcription_velocity", "est-pitch-length", VelFns, VE),
  F("tempo", "ref-not-two", {"tempo.detection", "tempo.evaluate"}, VE), F("tempo", "est-not-two", {"tempo.detection", "tempo.evaluate"}, VE),
  F("tempo", "negative-tempo", {"tempo.detection", "tempo.evaluate"}, VE), F("tempo", "nan-tempo", {"tempo.detection", "tempo.evaluate"}, VE),
  F("tempo", "ref-both-zero", {"tempo.detection", "tempo.evaluate"}, VE), F("tempo", "weight-above-1", {"tempo.detection", "tempo.evaluate"}, VE),
  F("tempo", "weight-negative", {"tempo.detection", "tempo.evaluate"}, VE), F("tempo", "tol-out-of-range", {"tempo.detection", "tempo.evaluate"}, VE),
  F("key", "bad-format", {"key.weighted_score", "key.evaluate"}, VE), F("key", "bad-tonic", {"key.weighted_score", "key.evaluate"}, VE),
  F("key", "bad-mode", {"key.weighted_score", "key.evaluate"}, VE), F("key", "x-with-mode", {"key.weighted_score", "key.evaluate"}, VE),
  F("key", "empty-string", {"key.weighted_score", "key.evaluate"}, VE),
  F("pattern", "unknown-similarity-metric", {"pattern.establishment_FPR", "pattern.occurrence_FPR", "pattern.evaluate"}, VE),
  F("pattern", "pattern-without-occurrence", PatFns, VE), F("pattern", "bad-onset-midi-tuple", PatFns, VE),
  F("alignment", "not-ndarray", AlignFns, VE), F("alignment", "not-1d", AlignFns, VE), F("alignment", "empty-ref", AlignFns, VE),
  F("alignment", "unequal-counts", AlignFns, VE), F("alignment", "ref-decreasing", AlignFns, VE), F("alignment", "est-decreasing", AlignFns, VE),
  F("alignment", "negative-time", AlignFns, VE), F("alignment", "ref-negative-time", AlignFns, VE), F("alignment", "ref-not-ndarray", AlignFns, VE),
  F("alignment", "est-not-1d", AlignFns, VE),
  F("alignment", "ref-all-identical-without-duration", {"alignment.percentage_correct_segments", "alignment.evaluate"}, VE),
  F("alignment", "duration-nonpositive", {"alignment.percentage_correct_segments", "alignment.evaluate"}, VE),
  F("alignment", "duration-below-timestamp", {"alignment.percentage_correct_segments", "alignment.evaluate"}, VE),
  F("hierarchy", "frame-size-nonpositive", {"hierarchy.tmeasure", "hierarchy.lmeasure", "hierarchy.evaluate"}, VE),
  F("hierarchy", "frame-size-exceeds-window", {"hierarchy.tmeasure", "hierarchy.evaluate"}, VE),
  F("hierarchy", "window-zero", {"hierarchy.tmeasure", "hierarchy.evaluate"}, VE),       \* 0 is a window smaller than any frame size, not "no window"
  F("hierarchy", "level-ends-differ", {"hierarchy.tmeasure", "hierarchy.lmeasure"}, VE),
  F("hierarchy", "level-not-start-at-0", {"hierarchy.tmeasure", "hierarchy.lmeasure"}, VE),
  \* the interval helpers document their own rejections (docstrings: "Raises ValueError")
  F("util", "sample-times-decreasing", {"util.interpolate_intervals"}, VE),
  F("util", "boundaries-not-strictly-increasing", {"util.boundaries_to_intervals"}, VE),
  F("util", "annotations-not-aligned", {"util.merge_labeled_intervals"}, VE),
  F("separation", "shape-mismatch", SepFns, VE), F("separation", "too-many-dimensions", SepFns, VE),
  F("separation", "silent-reference", SepFns, VE), F("separation", "silent-estimate", SepFns, VE),
  F("separation", "too-many-sources", SepFns, VE) }

ValidShapes0(task) ==
  CASE task \in {"beat", "onset"} -> {"random", "identical", "empty_est", "empty_ref", "both_empty", "single", "duplicates", "disjoint", "clustered"}
    [] task = "segment" -> {"random", "identical", "empty_est", "single", "duplicates", "disjoint", "est-starts-later", "est-ends-later",
                            "est-ends-earlier", "boundary-at-ref-end", "one-frame"}
    [] task = "chord" -> {"random", "identical", "single", "duplicates", "est-starts-earlier", "est-ends-later", "boundary-at-ref-start",
                          "boundary-at-ref-end", "est-ends-earlier", "empty-label-lists"}      \* the comparison rules on two empty lists: a warning, an empty result
    [] task = "melody" -> {"random", "identical", "empty_est", "empty_ref", "both_empty", "single", "disjoint",
                           "est-starts-after-0+est_voicing", "est-starts-after-0+ref_reward", "ref-starts-after-0+est_voicing",
                           "ref-starts-after-0+ref_reward", "both-start-after-0+both", "starts-at-0+both"}
    [] task = "multipitch" -> {"random", "identical", "empty_est", "empty_ref", "both_empty", "duplicates", "disjoint",
                               "no-frames-at-all", "ref-without-frames", "est-without-frames"}      \* empty time bases (a warning, and zeros)
    [] task \in {"transcription", "transcription_velocity"} -> {"random", "identical", "empty_est", "empty_ref", "both_empty", "single", "duplicates", "disjoint"}
    [] task = "tempo" -> {"random", "identical", "single", "empty_est"}
    [] task = "key" -> {"random", "identical"}
    [] task = "pattern" -> {"random", "identical", "duplicates", "unison", "empty_est", "empty_ref", "both_empty"}
    [] task = "hierarchy" -> {"random", "identical", "single", "window-equals-frame-size", "one-frame"}
    [] task = "alignment" -> {"random", "identical", "duplicates", "duration-equals-last-timestamp"}
(* "repository-fixture": a reference/estimate pair of the repository's own annotation fixtures (tests/data/<task>): *)
(* a real annotation of real-world size; valid for every task                                                      *)
ValidShapes(task) == {"repository-fixture"} \cup ValidShapes0(task)
Tasks == {"beat", "onset", "segment", "chord", "melody", "multipitch", "transcription", "transcription_velocity", "tempo", "key",
          "pattern", "hierarchy", "alignment"}
=============================================================================
