SPECIFICATION Spec
CONSTANTS Pitches = {5, 6, 29}
          NF = 2
          NP = 2
          W = {1, 2}
          Modes = {"same", "late", "early"}
          Origins = {0, 10000}
INVARIANT Identities
INVARIANT NoTies
INVARIANT Export
