---------------------------- MODULE Trace_C10 ----------------------------
(* Judges what chord.validate_chord_label / split / join / encode did on arbitrary strings     *)
(* (C10).  The harness lexes each string into the token alphabet of Chord.tla ("?" for any      *)
(* character outside it) and records outcome classes and values; here the recogniser decides    *)
(* acceptance and the encoding specification decides the value.  Verdicts are total.            *)
EXTENDS Chord, TLC, Json, IOUtils
TraceLog == JsonDeserialize(IOEnv.TRACE_FILE)
VARIABLES i, done
vars == <<i, done>>
OKCLASS == {"ok", "InvalidChordException"}
Bits(e) == [k \in 1..12 |-> e.bits[k - 1]]
EncVerdict(p, rec, reduce, strict, name) ==
  IF rec.exc \notin OKCLASS THEN name \o ":raised-other-exception"
  ELSE IF ~p.ok THEN (IF rec.exc = "ok" THEN name \o ":rejected-label-was-encoded" ELSE "ok")
  ELSE LET e == Encode(p.ast, reduce, strict) IN
       IF IsInvalid(e) THEN (IF rec.exc = "ok" THEN name \o ":unencodable-label-was-encoded" ELSE "ok")
       ELSE IF rec.exc # "ok" THEN name \o ":encodable-label-rejected"
       ELSE IF rec.root # e.root \/ rec.bass # e.bass \/ rec.bits # Bits(e) THEN name \o ":encoding-differs"
       ELSE "ok"
First(vs) == LET bad == {k \in 1..Len(vs) : vs[k] # "ok"} IN
             IF bad = {} THEN "ok" ELSE vs[CHOOSE k \in bad : \A j \in bad : k <= j]
Verdict(ev) ==
  LET p == Parse(ev.toks) IN
  First(<<
    IF ev.validate \notin OKCLASS THEN "validate:raised-other-exception"
    ELSE IF (ev.validate = "ok") # p.ok THEN
         (IF p.ok THEN "validate:grammatical-label-rejected" ELSE "validate:ungrammatical-label-accepted")
    ELSE "ok",
    IF ev.split \notin OKCLASS THEN "split:raised-other-exception"
    ELSE IF (ev.split = "ok") # p.ok THEN "split:acceptance-differs" ELSE "ok",
    EncVerdict(p, ev.ff, FALSE, FALSE, "encode"),
    EncVerdict(p, ev.tf, TRUE, FALSE, "encode[reduce]"),
    EncVerdict(p, ev.fs, FALSE, TRUE, "encode[strict]"),
    EncVerdict(p, ev.ts, TRUE, TRUE, "encode[reduce,strict]"),
    \* split/join round trip: the re-joined label has the identical encoding (X is exempt, see DESIGN.md)
    IF p.ok /\ p.ast.kind # "X" /\ ev.ff.exc = "ok" THEN
       (IF ev.rt.exc # "ok" THEN "roundtrip:join(split(l))-raised"
        ELSE IF ev.rt.root # ev.ff.root \/ ev.rt.bass # ev.ff.bass \/ ev.rt.bits # ev.ff.bits THEN "roundtrip:encoding-differs"
        ELSE "ok")
    ELSE "ok",
    IF p.ok /\ p.ast.kind # "X" /\ ev.tf.exc = "ok" THEN
       (IF ev.rtr.exc # "ok" THEN "roundtrip[reduce]:join(split(l))-raised"
        ELSE IF ev.rtr.root # ev.tf.root \/ ev.rtr.bass # ev.tf.bass \/ ev.rtr.bits # ev.tf.bits THEN "roundtrip[reduce]:encoding-differs"
        ELSE "ok")
    ELSE "ok",
    \* encode_many agrees with encode on the same label
    IF ev.many.exc # ev.ff.exc THEN "encode_many:outcome-differs-from-encode"
    ELSE IF ev.many.exc = "ok" /\ (ev.many.root # ev.ff.root \/ ev.many.bass # ev.ff.bass \/ ev.many.bits # ev.ff.bits)
         THEN "encode_many:encoding-differs-from-encode"
    ELSE "ok" >>)
Class(ev) == IF \E k \in 1..Len(ev.toks) : ev.toks[k] = "?" THEN "foreign-character" ELSE "token-alphabet"
Init == i \in 1..Len(TraceLog) /\ done = FALSE
Next == /\ ~done /\ done' = TRUE /\ UNCHANGED i
        /\ LET v == Verdict(TraceLog[i]) IN
             v # "ok" => PrintT("REJECT" \o ToJson([tid |-> TraceLog[i].tid, clause |-> v, class |-> Class(TraceLog[i])]))
Spec == Init /\ [][Next]_vars
=============================================================================
