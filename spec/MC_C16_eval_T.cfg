SPECIFICATION Spec
CONSTANTS T = 5
          NI = 3
          Labels = {"a", "b"}
          FS = {1, 2}
          RStarts = {0, 1}
          EStarts = {0, 1}
          EEnds = {4, 5, 7}
INVARIANT Aligned
INVARIANT InRange
INVARIANT Export
