SPECIFICATION Spec
