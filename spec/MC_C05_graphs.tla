-------------------------- MODULE MC_C05_graphs --------------------------
(* Generator: every bipartite graph with NL x NR vertices, with the size of a maximum        *)
(* matching by definition.  One row per graph is exported and replayed into                  *)
(* util._bipartite_match under several vertex / adjacency orders.                            *)
EXTENDS Matching, TLC, Json
CONSTANTS NL, NR
VARIABLES E, mx, pc
vars == <<E, mx, pc>>
Init == E \in SUBSET ((1..NL) \X (1..NR)) /\ mx = -1 /\ pc = "in"
Solve == pc = "in" /\ mx' = MaxSize(NL, E) /\ pc' = "out" /\ UNCHANGED E
Next == Solve
Spec == Init /\ [][Next]_vars
(* MaxSize is symmetric in the two sides (transpose the graph): a check of the definition *)
Transpose(X) == {<<e[2], e[1]>> : e \in X}
SymInv == pc = "out" => mx = MaxSize(NR, Transpose(E))
Export == pc = "out" => PrintT("ROW" \o ToJson([nl |-> NL, nr |-> NR, mx |-> mx, e |-> E]))
=============================================================================
