SPECIFICATION Spec
CONSTANTS Kind = "L"
          T = 4
          NL = 2
          NS = 2
          Labels = {"a", "b", "A"}
          Windows = {0}
          FS = {1}
INVARIANT InRange
INVARIANT SelfPerfect
INVARIANT Export
