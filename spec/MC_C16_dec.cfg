SPECIFICATION Spec
CONSTANTS T = 20
          NI = 3
          Labels = {"a", "b"}
          FS = {1, 2, 5}
          Step = 5
INVARIANT FormulationsAgree
INVARIANT SwapSym
INVARIANT InRange
INVARIANT PerfectWhenSame
INVARIANT Export
