SPECIFICATION Spec
CONSTANTS P = 4
          N = 3
          W = {0, 1, 2}
          Shifts = {1, 3}
          Onsets = {0, 1, 2}
          Durs = {1, 3}
          Pitches = {0, 40}
          NN = 2
INVARIANT ShiftInvariant
INVARIANT PermuteInvariant
