SPECIFICATION Spec
CONSTANTS NL = 3
          NR = 4
INVARIANT SymInv
INVARIANT Export
