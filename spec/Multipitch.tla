----------------------------- MODULE Multipitch -----------------------------
(* Multiple-f0 evaluation (C18, C04).  Pitches are lattice integers (half semitones), a frame   *)
(* is a sequence of pitches.  If the estimate has its own time base it is resampled onto the     *)
(* reference's: each reference time takes the estimate frame NEAREST in time, and an empty frame  *)
(* when it lies outside [first estimate time, last estimate time].  Per frame the number of true  *)
(* positives is the size of a maximum matching under |p - q| <= w (raw) or under the circular     *)
(* distance modulo one octave (chroma).  Scores per Poliner & Ellis / Bay et al.                   *)
EXTENDS Hits, Matching

Octave == 24
AbsD(a, b) == IF a >= b THEN a - b ELSE b - a
(* indices of estimate frames nearest to time t (one, or two at an exact tie); {} outside range *)
Nearest(t, etimes) ==
  IF etimes = <<>> \/ t < etimes[1] \/ t > etimes[Len(etimes)] THEN {}
  ELSE {k \in 1..Len(etimes) : \A j \in 1..Len(etimes) : AbsD(etimes[k], t) <= AbsD(etimes[j], t)}
Resample(rtimes, etimes, eframes) ==
  [i \in 1..Len(rtimes) |-> LET c == Nearest(rtimes[i], etimes) IN IF c = {} THEN <<>> ELSE eframes[MinSet(c)]]
NoTie(rtimes, etimes) == \A i \in 1..Len(rtimes) : Cardinality(Nearest(rtimes[i], etimes)) <= 1
TP(rf, ef, w)  == MaxSize(Len(rf), EventEdges(rf, ef, w))
TPc(rf, ef, w) == MaxSize(Len(rf), ModEdges(rf, ef, w, Octave))
Sum(f, n) == SumSeq([i \in 1..n |-> f[i]])
Ratio(a, b) == IF b = 0 THEN <<0, 1>> ELSE Norm(a, b)
Scores(rframes, eframes, w, chroma) ==
  LET n == Len(rframes)
      tp == [i \in 1..n |-> IF chroma THEN TPc(rframes[i], eframes[i], w) ELSE TP(rframes[i], eframes[i], w)]
      nr == [i \in 1..n |-> Len(rframes[i])]
      ne == [i \in 1..n |-> Len(eframes[i])]
      S(f) == Sum(f, n)
  IN  [tp |-> tp,
       p |-> Ratio(S(tp), S(ne)), r |-> Ratio(S(tp), S(nr)),
       acc |-> Ratio(S(tp), S([i \in 1..n |-> ne[i] + nr[i] - tp[i]])),
       esub |-> Ratio(S([i \in 1..n |-> MinI(nr[i], ne[i]) - tp[i]]), S(nr)),
       emiss |-> Ratio(S([i \in 1..n |-> MaxI(0, nr[i] - ne[i])]), S(nr)),
       efa |-> Ratio(S([i \in 1..n |-> MaxI(0, ne[i] - nr[i])]), S(nr)),
       etot |-> Ratio(S([i \in 1..n |-> MaxI(nr[i], ne[i]) - tp[i]]), S(nr))]
=============================================================================
