SPECIFICATION Spec
CONSTANTS Kind = "events"
          P = 7
          NI = 0
          NP = 4
          Labels = {"a", "b"}
INVARIANT SpecAgrees
INVARIANT Export
