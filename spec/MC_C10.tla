------------------------------ MODULE MC_C10 ------------------------------
(* Generator of grammar-derivable chord labels (as ASTs) with their specified encodings under *)
(* all four (reduce_extended_chords, strict_bass_intervals) settings.  Three families:        *)
(*   "roots"  every root spelling x a few qualities                                            *)
(*   "quals"  one root x every shorthand option x every single degree edit x several basses    *)
(*   "pairs"  one root x some shorthands x every PAIR of degree edits                          *)
(* TLC checks on every label: the encoding is well-formed (root/bass in 0..11, bits 0/1, the   *)
(* bass bit set), strictness only turns results into InvalidChord, the recogniser accepts the  *)
(* label's own token sequence and returns the same AST (Parse o Tokens = id).                  *)
EXTENDS Chord, TLC, Json
CONSTANTS Family, Accs, DegNums, DegAccs, BassSet
VARIABLES ast, out, pc
vars == <<ast, out, pc>>

ShOptions == Shorthands \cup {"none", "paren"}
Deg(o, a, n) == [omit |-> o, acc |-> a, num |-> n]
AllDegs == {Deg(o, a, n) : o \in BOOLEAN, a \in DegAccs, n \in DegNums}
Basses == {<<>>} \cup {<<[acc |-> b[1], num |-> b[2]]>> : b \in BassSet}
Mk(l, a, sh, ds, b) == [kind |-> "chord", letter |-> l, acc |-> a, sh |-> sh, degs |-> ds, bass |-> b]
WellFormedAst(x) == (x.sh = "paren" => Len(x.degs) > 0) /\ (x.sh = "none" => Len(x.degs) = 0)

RootsFam == {Mk(l, a, sh, <<>>, b) : l \in Letters, a \in Accs, sh \in {"none", "maj", "min7"},
                                     b \in {<<>>, <<[acc |-> 0, num |-> 5]>>}}
QualsFam == {x \in {Mk("C", 0, sh, ds, b) : sh \in ShOptions, ds \in {<<>>} \cup {<<d>> : d \in AllDegs}, b \in Basses} :
               WellFormedAst(x)}
PairsFam == {x \in {Mk("G", 1, sh, <<d1, d2>>, b) : sh \in {"paren", "maj", "7", "min9", "13", "sus4", "hdim7"},
                                                   d1 \in AllDegs, d2 \in AllDegs,
                                                   b \in {<<>>, <<[acc |-> 0, num |-> 5]>>, <<[acc |-> -1, num |-> 9]>>}} :
               x.degs[1] # x.degs[2]}
Special == {[kind |-> "N"], [kind |-> "X"]}
Init == /\ ast \in (CASE Family = "roots" -> RootsFam \cup Special [] Family = "quals" -> QualsFam [] Family = "pairs" -> PairsFam)
        /\ out = <<>> /\ pc = "in"

(* tokens of an AST: the inverse of the recogniser *)
RECURSIVE Rep(_, _)
Rep(c, n) == IF n = 0 THEN <<>> ELSE <<c>> \o Rep(c, n - 1)
AccToks(a) == IF a < 0 THEN Rep("b", -a) ELSE Rep("#", a)
NumTok(n) == CASE n = 1 -> "d1" [] n = 2 -> "d2" [] n = 3 -> "d3" [] n = 4 -> "d4" [] n = 5 -> "d5" [] n = 6 -> "d6"
               [] n = 7 -> "d7" [] n = 8 -> "d8" [] n = 9 -> "d9" [] n = 10 -> "d10" [] n = 11 -> "d11"
               [] n = 12 -> "d12" [] n = 13 -> "d13"
DegToksOf(d) == (IF d.omit THEN <<"*">> ELSE <<>>) \o AccToks(d.acc) \o <<NumTok(d.num)>>
RECURSIVE DegListToks(_)
DegListToks(ds) == IF Len(ds) = 1 THEN DegToksOf(ds[1]) ELSE DegToksOf(ds[1]) \o <<",">> \o DegListToks(Tail(ds))
ShTok(sh) == IF sh \in WordShorthands THEN "w" \o sh ELSE "d" \o sh
Tokens(x) ==
  IF x.kind # "chord" THEN <<x.kind>>
  ELSE <<x.letter>> \o AccToks(x.acc)
       \o (IF x.sh = "none" THEN <<>> ELSE IF x.sh = "paren" THEN <<":">> ELSE <<":", ShTok(x.sh)>>)
       \o (IF Len(x.degs) > 0 THEN <<"(">> \o DegListToks(x.degs) \o <<")">> ELSE <<>>)
       \o (IF x.kind = "chord" /\ x.bass # <<>> THEN <<"/">> \o AccToks(x.bass[1].acc) \o <<NumTok(x.bass[1].num)>> ELSE <<>>)

Enc(x, r, s) == LET e == Encode(x, r, s) IN
  IF IsInvalid(e) THEN [ok |-> FALSE, root |-> 0, bits |-> <<>>, bass |-> 0]
  ELSE [ok |-> TRUE, root |-> e.root, bits |-> [i \in 1..12 |-> e.bits[i - 1]], bass |-> e.bass]
Solve == /\ pc = "in" /\ pc' = "out" /\ UNCHANGED ast
         /\ out' = [toks |-> Tokens(ast), ff |-> Enc(ast, FALSE, FALSE), tf |-> Enc(ast, TRUE, FALSE),
                    fs |-> Enc(ast, FALSE, TRUE), ts |-> Enc(ast, TRUE, TRUE)]
Next == Solve
A5 == -2..2   A3 == -1..1   A2 == {-1, 0}   A0 == {0}
BassQ == {<<0, 3>>, <<-1, 7>>, <<0, 9>>, <<1, 4>>}
BassT == {<<0, 1>>, <<0, 2>>, <<0, 3>>, <<-1, 3>>, <<0, 5>>, <<1, 5>>, <<-1, 7>>, <<0, 7>>, <<0, 9>>, <<-1, 9>>, <<0, 11>>, <<0, 13>>, <<-2, 7>>}
Spec == Init /\ [][Next]_vars

WellFormedEnc(e) == e.ok /\ ast.kind = "chord" =>
   /\ e.root \in 0..11 /\ e.bass \in 0..11
   /\ \A i \in 1..12 : e.bits[i] \in {0, 1}
   /\ e.bits[e.bass + 1] = 1
EncodingSound == pc = "out" => WellFormedEnc(out.ff) /\ WellFormedEnc(out.tf) /\ WellFormedEnc(out.fs) /\ WellFormedEnc(out.ts)
StrictOnlyRejects == pc = "out" => (out.fs.ok => out.fs = out.ff) /\ (out.ts.ok => out.ts = out.tf)
                                   /\ (out.fs.ok => out.ff.ok) /\ (out.ts.ok => out.tf.ok)
ParseInverts == pc = "out" => LET p == Parse(out.toks) IN p.ok /\ (ast.kind = "chord" => p.ast = ast)
                                                               /\ (ast.kind # "chord" => p.ast.kind = ast.kind)
Export == pc = "out" => PrintT("ROW" \o ToJson([ast |-> ast, out |-> out]))
=============================================================================
