------------------------------ MODULE MelodyPre ------------------------------
(* Melody pre-processing (melody.to_cent_voicing) and the five measures on its result.          *)
(* A series is [t |-> times (strictly increasing integers), c |-> cents (integers, 0 = no         *)
(* pitch), v |-> voiced flags].  Steps, as documented: a series that does not start at time 0 is    *)
(* padded with a copy of its first frame at 0; the estimate is resampled onto the reference's       *)
(* times - pitch by linear interpolation in cents where unvoiced frames HOLD the previous pitch,     *)
(* then zeroed wherever the frame in force (the latest estimate frame at or before that time) has    *)
(* no pitch; voicing by the frame in force; beyond the estimate's last time there is no pitch and    *)
(* no voicing.  Cents become rationals after interpolation.                                          *)
EXTENDS Metrics
Pad0(s) == IF s.t[1] > 0 THEN [t |-> <<0>> \o s.t, c |-> <<s.c[1]>> \o s.c, v |-> <<s.v[1]>> \o s.v] ELSE s
Extend(s, tmax) == IF tmax > s.t[Len(s.t)] THEN [t |-> Append(s.t, tmax), c |-> Append(s.c, 0), v |-> Append(s.v, FALSE)] ELSE s
RECURSIVE Held(_, _)
Held(c, k) == IF k = 1 THEN c[1] ELSE IF c[k] # 0 THEN c[k] ELSE Held(c, k - 1)
InForce(s, x) == MaxSet({k \in 1..Len(s.t) : s.t[k] <= x})
LinAt(s, x) ==
  LET k == InForce(s, x) IN
  IF s.t[k] = x THEN R(Held(s.c, k))
  ELSE RAdd(R(Held(s.c, k)), RMul(R(Held(s.c, k + 1) - Held(s.c, k)), Norm(x - s.t[k], s.t[k + 1] - s.t[k])))
ResampleOnto(s0, newt) ==
  IF s0.t = newt THEN [c |-> [k \in 1..Len(newt) |-> R(s0.c[k])], v |-> s0.v]
  ELSE LET s == Extend(s0, newt[Len(newt)]) IN
       [c |-> [k \in 1..Len(newt) |-> IF s.c[InForce(s, newt[k])] = 0 THEN <<0, 1>> ELSE LinAt(s, newt[k])],
        v |-> [k \in 1..Len(newt) |-> s.v[InForce(s, newt[k])]]]
ToCentVoicing(ref0, est0) ==
  LET ref == Pad0(ref0)  est == Pad0(est0)  e2 == ResampleOnto(est, ref.t)
      B(b) == IF b THEN <<1, 1>> ELSE <<0, 1>>
  IN  [rv |-> [k \in 1..Len(ref.t) |-> B(ref.v[k])], rc |-> [k \in 1..Len(ref.t) |-> R(ref.c[k])],
       ev |-> [k \in 1..Len(ref.t) |-> B(e2.v[k])], ec |-> e2.c]
(* ---- general form: explicit (possibly continuous) voicing on both sides, resampling kinds, constant hop ---- *)
(* A weighted series is [t, c, w]: w = voicing / reward as rationals in [0,1] AS GIVEN by the caller;            *)
(* freq_to_voicing forces it to 0 on frames without pitch (FV).  kind "linear": as above, and a NON-binary         *)
(* voicing is interpolated linearly too (a binary one is taken from the frame in force); kind "zero": pitch and    *)
(* voicing of the frame in force, no holding; kind "nearest": pitch and voicing of the nearest frame, the EARLIER   *)
(* one on a tie.  hop = 0: the estimate is resampled onto the reference's times; hop > 0: both sides are resampled *)
(* onto 0, hop, 2 hop, ... up to their own last time.  Finally the estimate is cut / zero-padded to the reference's *)
(* length.  A series already on the target times is returned untouched.                                            *)
FV(s) == [s EXCEPT !.w = [k \in 1..Len(s.t) |-> IF s.c[k] = 0 THEN <<0, 1>> ELSE s.w[k]]]
PadW(s) == IF s.t[1] > 0 THEN [t |-> <<0>> \o s.t, c |-> <<s.c[1]>> \o s.c, w |-> <<s.w[1]>> \o s.w] ELSE s
ExtendW(s, tmax) == IF tmax > s.t[Len(s.t)] THEN [t |-> Append(s.t, tmax), c |-> Append(s.c, 0), w |-> Append(s.w, <<0, 1>>)] ELSE s
IsBinaryW(w) == \A k \in 1..Len(w) : w[k][1] = 0 \/ w[k][1] = w[k][2]
NearestIdx(s, x) == LET k == InForce(s, x) IN
  IF k = Len(s.t) THEN k ELSE IF x - s.t[k] <= s.t[k + 1] - x THEN k ELSE k + 1
CentsAt(s, x, kind) ==
  IF kind = "zero" THEN R(s.c[InForce(s, x)])
  ELSE IF kind = "nearest" THEN R(s.c[NearestIdx(s, x)])
  ELSE IF s.c[InForce(s, x)] = 0 THEN <<0, 1>> ELSE LinAt(s, x)
VoicAt(s, x, kind) ==
  LET k == InForce(s, x) IN
  IF kind = "nearest" THEN s.w[NearestIdx(s, x)]
  ELSE IF kind = "linear" /\ ~IsBinaryW(s.w) /\ s.t[k] # x
       THEN RAdd(s.w[k], RMul(RSub(s.w[k + 1], s.w[k]), Norm(x - s.t[k], s.t[k + 1] - s.t[k])))
  ELSE s.w[k]
ResampleK(s0, newt, kind) ==
  IF s0.t = newt THEN [c |-> [k \in 1..Len(newt) |-> R(s0.c[k])], w |-> s0.w]
  ELSE LET s == ExtendW(s0, newt[Len(newt)]) IN
       [c |-> [k \in 1..Len(newt) |-> CentsAt(s, newt[k], kind)], w |-> [k \in 1..Len(newt) |-> VoicAt(s, newt[k], kind)]]
HopBase(h, tmax) == [k \in 1..(tmax \div h + 1) |-> h * (k - 1)]
(* the internal "hold" stage of one resampling (kinds other than zero / nearest, and only when resampling really        *)
(* happens): every pitchless frame carries the pitch of the frame before it, recursively; the first frame is kept.      *)
(* It is an intermediate state of the code (a local array), observed by tracing and compared with this.                  *)
HeldSeq(s) == [k \in 1..Len(s.t) |-> Held(s.c, k)]
HeldOf(s0, newt, kind) == IF s0.t = newt \/ kind \in {"zero", "nearest"} THEN <<>> ELSE <<HeldSeq(ExtendW(s0, newt[Len(newt)]))>>
ToCentVoicingK(ref0, est0, hop, kind) ==
  LET ref == FV(PadW(ref0))  est == FV(PadW(est0))
      r2 == IF hop = 0 THEN [c |-> [k \in 1..Len(ref.t) |-> R(ref.c[k])], w |-> ref.w]
            ELSE ResampleK(ref, HopBase(hop, ref.t[Len(ref.t)]), kind)
      e2 == IF hop = 0 THEN ResampleK(est, ref.t, kind) ELSE ResampleK(est, HopBase(hop, est.t[Len(est.t)]), kind)
      n == Len(r2.c)
      Cut(q) == [k \in 1..n |-> IF k <= Len(q) THEN q[k] ELSE <<0, 1>>]
  IN  [rv |-> r2.w, rc |-> r2.c, ev |-> Cut(e2.w), ec |-> Cut(e2.c),
       held |-> IF hop = 0 THEN HeldOf(est, ref.t, kind)
                ELSE HeldOf(ref, HopBase(hop, ref.t[Len(ref.t)]), kind) \o HeldOf(est, HopBase(hop, est.t[Len(est.t)]), kind)]
(* the measures on rational cents *)
RFloor(x) == x[1] \div x[2]
RChroma(d) == RAbs(RSub(d, R(1200 * RFloor(RAdd(RDiv(d, R(1200)), <<1, 2>>)))))
ROKc(rc, ec, k, tol, chroma) ==
  rc[k][1] # 0 /\ ec[k][1] # 0 /\ LET d == RAbs(RSub(rc[k], ec[k])) IN RLt(IF chroma THEN RChroma(d) ELSE d, R(tol))
RRaw(rv, rc, ec, tol, chroma) ==
  LET n == Len(rv) tot == RSumSeq(rv) IN
  IF n = 0 \/ tot[1] = 0 THEN <<0, 1>>
  ELSE RDiv(RSumSeq([k \in 1..n |-> IF ROKc(rc, ec, k, tol, chroma) THEN rv[k] ELSE <<0, 1>>]), tot)
ROverall(rv, rc, ev, ec, tol) ==
  LET n == Len(rv) tot == RSumSeq(rv)
      nvoiced == Cardinality({k \in 1..n : rv[k][1] > 0})
      ratio == IF tot[1] = 0 THEN <<0, 1>> ELSE RDiv(R(nvoiced), tot)
      hit == RSumSeq([k \in 1..n |-> IF ROKc(rc, ec, k, tol, FALSE) THEN RMul(rv[k], ev[k]) ELSE <<0, 1>>])
      rej == RSumSeq([k \in 1..n |-> IF rv[k][1] = 0 THEN RSub(R(1), ev[k]) ELSE <<0, 1>>])
  IN  IF n = 0 THEN <<0, 1>> ELSE RDiv(RAdd(RMul(ratio, hit), rej), R(n))
=============================================================================
