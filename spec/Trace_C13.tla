---------------------------- MODULE Trace_C13 ----------------------------
(* Verdicts on what the real interval pre-processing functions returned (C13).  Each event  *)
(* is {tid, kind, inp, res}; res.exc is "" when the call returned.  Events are independent, *)
(* so every event is its own initial state (any number of workers); verdicts are total.     *)
EXTENDS Intervals, TLC, Json, IOUtils
TraceLog == JsonDeserialize(IOEnv.TRACE_FILE)
VARIABLES i, done
vars == <<i, done>>
Pairs(s) == [k \in 1..Len(s) |-> <<s[k][1], s[k][2]>>]
Verdict(ev) ==
  IF ev.res.exc # "" THEN "raised-" \o ev.res.exc
  ELSE CASE ev.kind = "adjust" ->
              AdjustVerdict(Pairs(ev.inp.ivs), ev.inp.labs, ev.inp.tmin, ev.inp.tmax, ev.inp.sl, ev.inp.el,
                            Pairs(ev.res.ivs), ev.res.labs)
         [] ev.kind = "merge" ->
              MergeVerdict(Pairs(ev.inp.xi), ev.inp.xl, Pairs(ev.inp.yi), ev.inp.yl,
                           Pairs(ev.res.ivs), ev.res.xl, ev.res.yl)
         [] ev.kind = "interp" ->
              IF ev.res.labs = InterpSpec(Pairs(ev.inp.ivs), ev.inp.labs, ev.inp.pts, "F") THEN "ok"
              ELSE "sample-label-differs"
         [] ev.kind = "samples" ->
              LET t == SampleTimes(Pairs(ev.inp.ivs), ev.inp.offset, ev.inp.size) IN
              IF ev.res.times # t THEN "sample-grid-differs"
              ELSE IF ev.res.labs # InterpSpec(Pairs(ev.inp.ivs), ev.inp.labs, t, "F") THEN "sample-label-differs"
              ELSE "ok"
         [] ev.kind = "bounds" ->
              IF ev.res.b # BoundariesOf(Pairs(ev.inp.ivs)) THEN "boundaries-differ"
              ELSE IF Pairs(ev.res.back) # Pairs(ev.inp.ivs) THEN "round-trip-differs"
              ELSE "ok"
         [] ev.kind = "noisy" ->          \* float-noise shared edges: n intervals <-> n + 1 strictly increasing boundaries, inverse to 1e-5
              IF ev.res.nb # ev.inp.n + 1 THEN "boundary-count"
              ELSE IF ~ev.res.incr THEN "boundaries-not-increasing"
              ELSE IF ev.res.err9 > 10000 THEN "round-trip-beyond-5-decimals"
              ELSE "ok"
         [] ev.kind = "events" ->
              IF ev.res.evs # AdjustEventsSpec(ev.inp.evs, ev.inp.tmin, ev.inp.tmax) THEN "events-differ"
              ELSE IF ev.res.labs # AdjustEventLabelsSpec(ev.inp.evs, [k \in 1..Len(ev.inp.evs) |-> ev.inp.elabs[k]], ev.inp.tmin, ev.inp.tmax) THEN "event-labels-differ"
              ELSE "ok"
Class(ev) == IF ev.kind = "adjust" THEN AdjustClass(Pairs(ev.inp.ivs), ev.inp.tmin, ev.inp.tmax) ELSE "general"
Init == i \in 1..Len(TraceLog) /\ done = FALSE
Next == /\ ~done /\ done' = TRUE /\ UNCHANGED i
        /\ LET v == Verdict(TraceLog[i]) IN
             v # "ok" => PrintT("REJECT" \o ToJson([tid |-> TraceLog[i].tid, clause |-> v, class |-> Class(TraceLog[i])]))
Spec == Init /\ [][Next]_vars
=============================================================================
