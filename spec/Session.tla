------------------------------ MODULE Session ------------------------------
(* Layer 2: one sequential client, a heap of caller-owned annotation objects, and calls of  *)
(* mir_eval functions in any order.  The specification of EVERY call is the same two lines:  *)
(*      heap' = heap                 -- no argument object is modified            (C15)     *)
(*      same key => same outcome     -- the outcome is a function of the arguments (C15)     *)
(* Objects are abstract (a handle and a version that any write would bump); outcomes are     *)
(* abstract values of the uninterpreted function Out(f, versions, kw).  TLC enumerates every  *)
(* history up to MaxLen over the alphabet - repeats, reversed orders, interleavings across   *)
(* tasks, aliasing (the same object passed as reference and estimate) - and exports each      *)
(* history; the harness executes it on the real library and Trace_Session judges what it saw. *)
EXTENDS Integers, Sequences, FiniteSets, TLC, Json
CONSTANTS Fns,       \* function alphabet (task entry points)
          Inputs,    \* handles of pre-generated input bundles per function
          Kws,       \* keyword-variant indices
          MaxLen
VARIABLES heap, hist, memo
vars == <<heap, hist, memo>>
Calls == [fn : Fns, inp : Inputs, kw : Kws, alias : BOOLEAN]
Out(c, h) == <<c.fn, c.inp, c.kw, c.alias, h[c.inp]>>      \* uninterpreted: depends on nothing else
Init == heap = [i \in Inputs |-> 0] /\ hist = <<>> /\ memo = <<>>
Call(c) == /\ Len(hist) < MaxLen
           /\ heap' = heap                                            \* purity
           /\ hist' = Append(hist, c)
           /\ memo' = Append(memo, Out(c, heap))
Next == \E c \in Calls : Call(c)
Spec == Init /\ [][Next]_vars
(* repeatability on the specification: equal calls in one history have equal outcomes *)
Repeatable == \A i, j \in 1..Len(hist) : hist[i] = hist[j] => memo[i] = memo[j]
HeapStable == \A i \in Inputs : heap[i] = 0
Export == Len(hist) >= 1 => PrintT("ROW" \o ToJson([hist |-> hist]))
=============================================================================
