SPECIFICATION Spec
CONSTANTS NL = 6
INVARIANT Grouping
INVARIANT Export
