---------------------------- MODULE Trace_Range ----------------------------
(* C01: every returned score is classified by its documented kind and must lie in that kind's *)
(* range.  The table Kinds(fn) lists, per public function (evaluate() dictionaries in key      *)
(* order), the kind of every position of the result:                                            *)
(*   "prop"   precision / recall / F / accuracy / hit rate / normalised index: finite, [0,1]    *)
(*   "bin"    exactly 0 or 1 (Goto, tempo hits)                                                  *)
(*   "chance" chance-adjusted index (ARI, AMI): finite, <= 1                                     *)
(*   "err"    error rate or deviation that is always defined: finite, >= 0                       *)
(*   "dev"    boundary deviation: finite >= 0, or NaN exactly when a side has no boundaries      *)
(*   "pscore" beat P-score: finite >= 0, and <= 1 when the event carries wellsep = TRUE          *)
(*   "aor"    average overlap ratio: finite, <= 1                                                *)
(*   "fin"    finite, no further claim (mutual information in nats, perceptual score)            *)
EXTENDS Integers, Sequences, FiniteSets, TLC, Json, IOUtils
TraceLog == JsonDeserialize(IOEnv.TRACE_FILE)
VARIABLES i, done
vars == <<i, done>>
ONE == 1000000000
Rep(v, n) == [k \in 1..n |-> v]
Kinds(fn) ==
  CASE fn = "beat.f_measure" -> <<"prop">>
    [] fn = "beat.cemgil" -> <<"prop", "prop">>
    [] fn = "beat.goto" -> <<"bin">>
    [] fn = "beat.p_score" -> <<"pscore">>
    [] fn = "beat.continuity" -> Rep("prop", 4)
    [] fn = "beat.information_gain" -> <<"prop">>
    [] fn = "beat.evaluate" -> <<"prop", "prop", "prop", "bin", "pscore", "prop", "prop", "prop", "prop", "prop">>
    [] fn = "onset.f_measure" -> Rep("prop", 3)
    [] fn = "onset.evaluate" -> Rep("prop", 3)
    [] fn = "segment.detection" -> Rep("prop", 3)
    [] fn = "segment.deviation" -> <<"dev", "dev">>
    [] fn = "segment.pairwise" -> Rep("prop", 3)
    [] fn = "segment.rand_index" -> <<"prop">>
    [] fn = "segment.ari" -> <<"chance">>
    [] fn = "segment.mutual_information" -> <<"fin", "chance", "prop">>
    [] fn = "segment.nce" -> Rep("prop", 3)
    [] fn = "segment.vmeasure" -> Rep("prop", 3)
    [] fn = "segment.evaluate" -> Rep("prop", 6) \o <<"dev", "dev">> \o Rep("prop", 4) \o <<"chance", "fin", "chance", "prop">> \o Rep("prop", 6)
    [] fn = "chord.evaluate" -> Rep("prop", 15)
    [] fn = "chord.weighted_accuracy" -> <<"prop">>
    [] fn = "chord.seg" -> Rep("prop", 3)
    [] fn = "melody.evaluate" -> Rep("prop", 5)
    [] fn = "melody.measures" -> Rep("prop", 5)
    [] fn = "multipitch.metrics" -> <<"prop", "prop", "prop", "err", "err", "err", "err", "prop", "prop", "prop", "err", "err", "err", "err">>
    [] fn = "multipitch.evaluate" -> <<"prop", "prop", "prop", "err", "err", "err", "err", "prop", "prop", "prop", "err", "err", "err", "err">>
    [] fn = "transcription.precision_recall_f1_overlap" -> <<"prop", "prop", "prop", "aor">>
    [] fn = "transcription.onset_precision_recall_f1" -> Rep("prop", 3)
    [] fn = "transcription.offset_precision_recall_f1" -> Rep("prop", 3)
    [] fn = "transcription.evaluate14" -> <<"prop", "prop", "prop", "aor", "prop", "prop", "prop", "aor">> \o Rep("prop", 6)
    [] fn = "transcription.evaluate7" -> <<"prop", "prop", "prop", "aor">> \o Rep("prop", 3)
    [] fn = "transcription_velocity.precision_recall_f1_overlap" -> <<"prop", "prop", "prop", "aor">>
    [] fn = "transcription_velocity.evaluate8" -> <<"prop", "prop", "prop", "aor", "prop", "prop", "prop", "aor">>
    [] fn = "transcription_velocity.evaluate4" -> <<"prop", "prop", "prop", "aor">>
    [] fn = "tempo.detection" -> <<"prop", "bin", "bin">>
    [] fn = "tempo.evaluate" -> <<"prop", "bin", "bin">>
    [] fn = "key.weighted_score" -> <<"prop">>
    [] fn = "key.evaluate" -> <<"prop">>
    [] fn = "pattern.standard_FPR" -> Rep("prop", 3)
    [] fn = "pattern.establishment_FPR" -> Rep("prop", 3)
    [] fn = "pattern.occurrence_FPR" -> Rep("prop", 3)
    [] fn = "pattern.three_layer_FPR" -> Rep("prop", 3)
    [] fn = "pattern.first_n_three_layer_P" -> <<"prop">>
    [] fn = "pattern.first_n_target_proportion_R" -> <<"prop">>
    [] fn = "pattern.evaluate" -> Rep("prop", 17)
    [] fn = "hierarchy.tmeasure" -> Rep("prop", 3)
    [] fn = "hierarchy.lmeasure" -> Rep("prop", 3)
    [] fn = "hierarchy.evaluate" -> Rep("prop", 9)
    [] fn = "alignment.absolute_error" -> <<"err", "err">>
    [] fn = "alignment.percentage_correct" -> <<"prop">>
    [] fn = "alignment.percentage_correct_segments" -> <<"prop">>
    [] fn = "alignment.karaoke_perceptual_metric" -> <<"fin">>
    [] fn = "alignment.evaluate" -> <<"prop", "err", "err", "prop", "fin">>
InKind(kind, v, ev) ==
  CASE kind = "prop"   -> v.c = "fin" /\ v.m9 >= -1 /\ v.m9 <= ONE + 1
    [] kind = "bin"    -> v.c = "fin" /\ (v.m9 = 0 \/ v.m9 = ONE) /\ (v.b2 = 0 /\ v.b3 = 0)
    [] kind = "chance" -> v.c = "fin" /\ v.m9 <= ONE + 1
    [] kind = "err"    -> v.c = "fin" /\ v.m9 >= -1
    [] kind = "dev"    -> (v.c = "fin" /\ v.m9 >= -1) \/ (v.c = "nan" /\ ev.emptyside)
    [] kind = "pscore" -> v.c = "fin" /\ v.m9 >= -1 /\ (ev.wellsep => v.m9 <= ONE + 1)
    [] kind = "aor"    -> v.c = "fin" /\ v.m9 <= ONE + 1
    [] kind = "fin"    -> v.c = "fin"
Verdict(ev) ==
  LET ks == Kinds(ev.fn) IN
  IF Len(ks) # Len(ev.vals) THEN "arity:" \o ToString(Len(ev.vals))
  ELSE LET bad == {k \in 1..Len(ks) : ~InKind(ks[k], ev.vals[k], ev)} IN
       IF bad = {} THEN "ok"
       ELSE LET k == CHOOSE x \in bad : \A y \in bad : x <= y IN
            ks[k] \o "@" \o ToString(k) \o ":" \o ev.vals[k].c
Init == i \in 1..Len(TraceLog) /\ done = FALSE
Next == /\ ~done /\ done' = TRUE /\ UNCHANGED i
        /\ LET v == Verdict(TraceLog[i]) IN
             v # "ok" => PrintT("REJECT" \o ToJson([tid |-> TraceLog[i].tid, clause |-> v]))
Spec == Init /\ [][Next]_vars
=============================================================================
