SPECIFICATION Spec
CONSTANTS T = 4
          NI = 2
          Labels = {"a", "b"}
          FS = {1}
          RStarts = {0, 1}
          EStarts = {0, 1}
          EEnds = {3, 4, 6}
INVARIANT Aligned
INVARIANT InRange
INVARIANT Export
