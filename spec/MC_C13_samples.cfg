SPECIFICATION Spec
CONSTANTS Kind = "samples"
          P = 6
          NI = 2
          NP = 0
          Labels = {"a", "b"}
INVARIANT SpecAgrees
INVARIANT Export
