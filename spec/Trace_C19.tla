----------------------------- MODULE Trace_C19 -----------------------------
(* Judges what separation.bss_eval_* returned (C19).  kinds:                                     *)
(*  "frame"  L, window, hop (in blocks), silence maps, images: columns, per-window NaN flags of   *)
(*           every metric, arity, and the harness-measured facts sliceeq (each non-NaN window      *)
(*           equals the non-framewise result on that slice) / fallbackeq                            *)
(*  "perm"   quantised SIR matrix and the returned permutation; decompok / scaleok are the          *)
(*           numeric facts (components sum to the estimate; invariance to rescaling)                 *)
(*  "equiv"  permutations before and after reordering the estimates by pi                            *)
(*  "perfect" permutation and minimum SDR (dB, rounded) for a perfect estimate                       *)
(*  "empty"  arity for empty input                                                                   *)
EXTENDS Sep, TLC, Json, IOUtils
TraceLog == JsonDeserialize(IOEnv.TRACE_FILE)
VARIABLES i, done
vars == <<i, done>>
Verdict(ev) ==
  CASE ev.kind = "frame" ->
         IF ev.exc # "ok" THEN "raised-" \o ev.exc
         ELSE IF ev.arity # Arity(ev.images) THEN "arity"
         ELSE IF ev.cols # Columns(ev.L, ev.window, ev.hop) THEN "number-of-windows"
         ELSE IF Fallback(ev.L, ev.window, ev.hop) THEN (IF ev.fallbackeq THEN "ok" ELSE "fallback-differs-from-non-framewise")
         ELSE IF \E w \in 1..ev.cols : \E m \in 1..ev.arity :
                   ev.nan[w][m] # NaNWindow(ev.refs, ev.ests, w - 1, ev.window, ev.hop) THEN "nan-iff-silent"
         ELSE IF ~ev.sliceeq THEN "window-differs-from-non-framewise-on-slice"
         ELSE "ok"
    [] ev.kind = "perm" ->
         IF ~IsPerm(ev.perm, ev.n) THEN "not-a-permutation"
         ELSE IF ~Optimal(ev.sir, ev.perm, ev.n, ev.n) THEN "does-not-maximise-mean-sir"
         ELSE IF ~ev.decompok THEN "components-do-not-sum-to-estimate"
         ELSE IF ~ev.scaleok THEN "not-scale-invariant"
         ELSE IF ~ev.imgdecompok THEN "image-components-do-not-sum-to-estimate"
         ELSE IF ~ev.imgscaleok THEN "images-not-scale-invariant"
         ELSE IF ~ev.evalok THEN "evaluate-differs-from-the-functions-it-bundles"
         ELSE "ok"
    [] ev.kind = "imgscale" ->       \* the property's wording taken literally for the image metrics: ALL four unchanged when ONE source is rescaled
         IF ~ev.imgfullok THEN "image-sdr-isr-change-when-one-source-is-rescaled" ELSE "ok"
    [] ev.kind = "equiv" ->
         IF ~IsPerm(ev.perm2, ev.n) THEN "not-a-permutation"
         ELSE IF \E j \in 1..ev.n : ev.perm2[j] # Inverse(ev.pi, ev.n)[ev.perm[j]] THEN "does-not-follow-reordering" ELSE "ok"
    [] ev.kind = "perfect" ->
         IF \E j \in 1..ev.n : ev.perm[j] # j THEN "perfect-estimate-not-identity"
         ELSE IF ev.minsdr < 60 THEN "perfect-estimate-low-sdr" ELSE "ok"
    [] ev.kind = "empty" -> IF ev.arity # Arity(ev.images) THEN "arity-for-empty-input" ELSE "ok"
Init == i \in 1..Len(TraceLog) /\ done = FALSE
Next == /\ ~done /\ done' = TRUE /\ UNCHANGED i
        /\ LET v == Verdict(TraceLog[i]) IN v # "ok" => PrintT("REJECT" \o ToJson([tid |-> TraceLog[i].tid, clause |-> v]))
Spec == Init /\ [][Next]_vars
=============================================================================
