------------------------------ MODULE MC_C16 ------------------------------
(* Every pair of labelled segmentations of 0..T (<= NI segments, labels incl. case variants and *)
(* repeats) x frame sizes: frame labels, contingency table, pairwise P/R, Rand, ARI (C16); the   *)
(* two formulations of each index agree; exchanging the annotations exchanges P and R and leaves *)
(* Rand/ARI unchanged (C06); indices are in range when defined (C01); ARI = 1 when the two       *)
(* partitions coincide; relabelling by case changes nothing.                                      *)
EXTENDS SegmentCluster, TLC, Json
CONSTANTS T, NI, Labels, FS, Step      \* boundaries are multiples of Step (Step > 1: many frames per segment - the decimal frame grid)
VARIABLES ref, est, fs, out, pc
vars == <<ref, est, fs, out, pc>>
Segs == {IntervalsOf(SortSet(X \cup {0, T})) : X \in {Y \in SUBSET {Step * i : i \in 1..((T - 1) \div Step)} : Cardinality(Y) <= NI - 1}}
Ann == UNION {{[ivs |-> iv, labs |-> l] : l \in [1..Len(iv) -> Labels]} : iv \in Segs}
Init == ref \in Ann /\ est \in Ann /\ fs \in FS /\ out = <<>> /\ pc = "in"
YR == FrameLabels(ref.ivs, ref.labs, fs)
YE == FrameLabels(est.ivs, est.labs, fs)
Solve == /\ pc = "in" /\ pc' = "out" /\ UNCHANGED <<ref, est, fs>>
         /\ out' = [yr |-> YR, ye |-> YE, cells |-> Cells(YR, YE),
                    pp |-> PairwisePClosed(YR, YE), pr |-> PairwiseRClosed(YR, YE),
                    rand |-> RandClosed(YR, YE), ari |-> Ari(YR, YE), aritrivial |-> AriTrivial(YR, YE)]
Next == Solve
Spec == Init /\ [][Next]_vars
FormulationsAgree == pc = "out" =>
  /\ out.pp = PairwiseP(out.yr, out.ye) /\ out.pr = PairwiseR(out.yr, out.ye)
  /\ (Len(out.yr) >= 2 => out.rand = RandDef(out.yr, out.ye))
  /\ (IsDefined(out.ari) /\ IsDefined(AriDef(out.yr, out.ye)) => REq(out.ari, AriDef(out.yr, out.ye)))
SwapSym == pc = "out" =>
  /\ PairwisePClosed(out.ye, out.yr) = out.pr /\ PairwiseRClosed(out.ye, out.yr) = out.pp
  /\ RandClosed(out.ye, out.yr) = out.rand
  /\ Ari(out.ye, out.yr) = out.ari
InRange == pc = "out" =>
  /\ (IsDefined(out.pp) => InUnit(out.pp)) /\ (IsDefined(out.pr) => InUnit(out.pr))
  /\ (IsDefined(out.rand) => InUnit(out.rand))
  /\ (IsDefined(out.ari) => RLeq(out.ari, <<1, 1>>))
PerfectWhenSame == pc = "out" /\ SamePartition(out.yr, out.ye) =>
  /\ (IsDefined(out.ari) => REq(out.ari, <<1, 1>>))
  /\ (IsDefined(out.rand) => out.rand = <<1, 1>>)
  /\ (IsDefined(out.pp) => out.pp = <<1, 1>> /\ out.pr = <<1, 1>>)
(* C08: renaming the labels of one annotation by a bijection changes no score *)
SwapAB(y) == [k \in 1..Len(y) |-> IF y[k] = "a" THEN "b" ELSE IF y[k] = "b" THEN "a" ELSE y[k]]
RelabelInv == pc = "out" =>
  /\ PairwisePClosed(SwapAB(out.yr), out.ye) = out.pp /\ PairwiseRClosed(out.yr, SwapAB(out.ye)) = out.pr
  /\ RandClosed(SwapAB(out.yr), out.ye) = out.rand /\ Ari(out.yr, SwapAB(out.ye)) = out.ari
Export == pc = "out" => PrintT("ROW" \o ToJson([ref |-> ref, est |-> est, fs |-> fs, out |-> out]))
=============================================================================
