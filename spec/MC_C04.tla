------------------------------ MODULE MC_C04 ------------------------------
(* Generators for the definitional scores of Metrics.tla: every input of a small lattice domain  *)
(* and every parameter combination, with the specified result as exact rationals.                  *)
EXTENDS Metrics, TLC, Json
CONSTANTS Kind, P, N, W
VARIABLES inp, out, pc
vars == <<inp, out, pc>>
Betas == {<<1, 4>>, <<1, 1>>, <<4, 1>>}           \* beta^2 for beta in {1/2, 1, 2}
Ev == SortedSeqs(0..P, N)
Segs(lo, hi, n) == {IntervalsOf(SortSet(X \cup {lo, hi})) : X \in {Y \in SUBSET ((lo + 1)..(hi - 1)) : Cardinality(Y) <= n - 1}}
Note == [on : {0, 1}, dur : {1, 3}, p : {0, 40}]
Voic == {<<0, 1>>, <<1, 2>>, <<1, 1>>}
Cents == {0, 1000, 1020, 1060, 2200, 2260}
CentsM == IF N >= 3 THEN {0, 1000, 1060, 2260} ELSE Cents      \* thinner alphabet for three frames
(* one melody frame of both sides: the reference has a pitch exactly where it is voiced *)
MelFrame == {[rv |-> a, rc |-> b, ev |-> c, ec |-> d] : a \in Voic, b \in CentsM, c \in Voic, d \in CentsM} \ {x \in [rv : Voic, rc : CentsM, ev : Voic, ec : CentsM] : ~(x.rc = 0 <=> x.rv[1] = 0)}
Init == /\ out = <<>> /\ pc = "in"
        /\ CASE Kind = "onset" -> inp \in [ref : Ev, est : Ev, w : W]
             [] Kind = "detect" -> inp \in [ref : Segs(0, P, N), est : UNION {Segs(a, b, N) : a \in {0, 1}, b \in {P - 1, P}}, w : W, trim : BOOLEAN, b2 : Betas]
             [] Kind = "notes" -> inp \in [ref : SeqsUpTo(Note, N), est : SeqsUpTo(Note, N), ot : {<<1, 1>>, <<2, 1>>},
                                           ratio : {NONE, <<1, 2>>}, strict : BOOLEAN, b2 : {<<1, 1>>, <<4, 1>>}]
             [] Kind = "aor" -> inp \in [ref : (SeqsUpTo(Note, N) \ {<<>>}), est : (SeqsUpTo(Note, N) \ {<<>>}), m : SUBSET ((1..N) \X (1..N))]
                                /\ IsMatching(inp.m, (1..Len(inp.ref)) \X (1..Len(inp.est)))
             [] Kind = "tempo" -> inp \in [r1 : {0, 60, 100}, r2 : {0, 110, 120, 180}, e1 : {0, 57, 63, 96, 100, 104, 108, 120}, e2 : {0, 96, 104, 110, 120, 130, 194},
                                           wgt : {<<0, 1>>, <<1, 4>>, <<1, 1>>}, tol : {<<0, 1>>, <<1, 20>>, <<2, 25>>, <<1, 1>>}]
                                  /\ (inp.r1 > 0 \/ inp.r2 > 0)
             [] Kind = "align" -> inp \in [ref : (SortedSeqs(0..P, N) \ {<<>>}), est : (SortedSeqs(0..P, N) \ {<<>>}), w : W, dur : {0, P + 1}]
                                  /\ Len(inp.ref) = Len(inp.est)
             [] Kind = "melody" -> \E n \in 0..N : \E f \in [1..n -> MelFrame], tl \in {30, 50} :
                                     inp = [rv |-> [k \in 1..n |-> f[k].rv], rc |-> [k \in 1..n |-> f[k].rc],
                                            ev |-> [k \in 1..n |-> f[k].ev], ec |-> [k \in 1..n |-> f[k].ec], tol |-> tl]
Q(x) == [p |-> x.p, r |-> x.r, f |-> x.f]
Solve == /\ pc = "in" /\ pc' = "out" /\ UNCHANGED inp
         /\ out' = CASE Kind = "onset" -> [prf |-> Q(EventPRF(inp.ref, inp.est, inp.w, <<1, 1>>))]
                     [] Kind = "detect" ->
                          LET rb == Boundaries(inp.ref, inp.trim) eb == Boundaries(inp.est, inp.trim) IN
                          [prf |-> Q(DetectionPRF(inp.ref, inp.est, inp.w, inp.trim, inp.b2)),
                           hasdev |-> Len(rb) > 0 /\ Len(eb) > 0,
                           dev |-> IF Len(rb) > 0 /\ Len(eb) > 0 THEN Deviation(rb, eb) ELSE <<<<0, 1>>, <<0, 1>>>>]
                     [] Kind = "notes" ->
                          [full |-> Q(NotePRF(inp.ref, inp.est, inp.ot, <<50, 1>>, inp.ratio, <<1, 1>>, inp.strict, inp.b2)),
                           onset |-> Q(OnsetPRF(inp.ref, inp.est, inp.ot, inp.strict, inp.b2)),
                           offset |-> IF inp.ratio = NONE THEN Q(PRF(0, 0, 0, <<1, 1>>)) ELSE Q(OffsetPRF(inp.ref, inp.est, inp.ratio, <<1, 1>>, inp.strict, inp.b2))]
                     [] Kind = "aor" -> [aor |-> AOR(inp.ref, inp.est, inp.m),
                                          \* the pairing match_notes must return when it is the only maximum one
                                          le1 |-> RLeq(AOR(inp.ref, inp.est, inp.m), <<1, 1>>)]
                     [] Kind = "tempo" ->
                          LET t == TempoScores(<<inp.r1, inp.r2>>, inp.wgt, <<inp.e1, inp.e2>>, inp.tol) IN
                          [p |-> t.p, one |-> t.one, both |-> t.both,
                           \* a relative error exactly on the tolerance: the property exempts it (rounding distance of a threshold)
                           tie |-> \E rt \in {inp.r1, inp.r2} : \E e \in {inp.e1, inp.e2} :
                                      rt > 0 /\ AbsI(rt - e) * inp.tol[2] = inp.tol[1] * rt /\ inp.tol[1] # 0 /\ inp.tol # <<1, 1>>]
                     [] Kind = "align" ->
                          [median |-> AlignMedian(inp.ref, inp.est), mean |-> AlignMean(inp.ref, inp.est),
                           pc |-> PercentCorrect(inp.ref, inp.est, inp.w),
                           offsets |-> [k \in 1..Len(inp.ref) |-> inp.est[k] - inp.ref[k]],      \* signed: estimate minus reference
                           haspcs |-> (inp.dur # 0 \/ inp.ref[Len(inp.ref)] > inp.ref[1]),
                           pcs |-> IF inp.dur # 0 \/ inp.ref[Len(inp.ref)] > inp.ref[1] THEN PCS(inp.ref, inp.est, inp.dur) ELSE <<0, 1>>]
                     [] Kind = "melody" ->
                          [recall |-> VoicingRecall(inp.rv, inp.ev), fa |-> VoicingFalseAlarm(inp.rv, inp.ev),
                           rpa |-> RawAccuracy(inp.rv, inp.rc, inp.ec, inp.tol, FALSE), rca |-> RawAccuracy(inp.rv, inp.rc, inp.ec, inp.tol, TRUE),
                           oa |-> OverallAccuracy(inp.rv, inp.rc, inp.ev, inp.ec, inp.tol)]
Next == Solve
Spec == Init /\ [][Next]_vars
(* ranges and nestings on the definitions (C01, C07) *)
Sane == pc = "out" =>
  CASE Kind = "onset" -> InUnit(out.prf.p) /\ InUnit(out.prf.r) /\ InUnit(out.prf.f)
    [] Kind = "detect" -> InUnit(out.prf.p) /\ InUnit(out.prf.r) /\ InUnit(out.prf.f)
    [] Kind = "notes" -> /\ InUnit(out.full.p) /\ InUnit(out.full.f)
                         /\ RLeq(out.full.p, out.onset.p) /\ RLeq(out.full.r, out.onset.r)
    [] Kind = "aor" -> out.le1                         \* C01: the ratio is bounded above by 1 (it may be negative)
    [] Kind = "tempo" -> InUnit(out.p) /\ (out.both => out.one)
    [] Kind = "align" -> InUnit(out.pc) /\ InUnit(out.pcs) /\ RLeq(<<0, 1>>, out.mean)
    [] Kind = "melody" -> /\ InUnit(out.recall) /\ InUnit(out.fa) /\ InUnit(out.rpa) /\ InUnit(out.rca) /\ InUnit(out.oa)
                          /\ RLeq(out.rpa, out.rca)
Export == pc = "out" => PrintT("ROW" \o ToJson([kind |-> Kind, inp |-> inp, out |-> out]))
=============================================================================
