SPECIFICATION Spec
CONSTANTS Kind = "bounds"
          P = 6
          NI = 3
          NP = 0
          Labels = {"a", "b"}
INVARIANT SpecAgrees
INVARIANT Export
