SPECIFICATION Spec
CONSTANTS T = 4
          NI = 3
          Labels = {"a", "A", "b"}
          FS = {1, 2}
INVARIANT FormulationsAgree
INVARIANT SwapSym
INVARIANT InRange
INVARIANT PerfectWhenSame
INVARIANT RelabelInv
INVARIANT Export
