SPECIFICATION Spec
CONSTANTS Family = "quals"
          Accs <- A0
          DegNums = {1, 2, 3, 4, 5, 6, 7, 8, 9, 10, 11, 12, 13}
          DegAccs <- A3
          BassSet <- BassQ
INVARIANT EncodingSound
INVARIANT StrictOnlyRejects
INVARIANT ParseInverts
INVARIANT Export
