SPECIFICATION Spec
CONSTANTS NL = 8
INVARIANT Grouping
INVARIANT Export
