-------------------------- MODULE MC_C05_events --------------------------
(* Generator for util.match_events (plain |r-e|<=w on sorted event times, and the           *)
(* chroma-wrapped distance on unsorted values): every pair of sequences on the lattice,      *)
(* every window; feasibility graph and maximum-matching size by definition.                 *)
EXTENDS Hits, Matching, TLC, Json
CONSTANTS P,        \* lattice 0..P
          N,        \* at most N items per side
          W,        \* set of windows
          Mode,     \* "abs" | "mod"
          Modulus
VARIABLES ref, est, w, out, pc
vars == <<ref, est, w, out, pc>>
Inputs == IF Mode = "abs" THEN SortedSeqs(0..P, N) ELSE SeqsUpTo(0..P, N)
Init == ref \in Inputs /\ est \in Inputs /\ w \in W /\ out = <<>> /\ pc = "in"
Edges == IF Mode = "abs" THEN EventEdges(ref, est, w) ELSE ModEdges(ref, est, w, Modulus)
Solve == /\ pc = "in"
         /\ LET E == Edges IN out' = [e |-> E, mx |-> MaxSize(Len(ref), E)]
         /\ pc' = "out" /\ UNCHANGED <<ref, est, w>>
Next == Solve
Spec == Init /\ [][Next]_vars
Reverse(s) == [i \in 1..Len(s) |-> s[Len(s) + 1 - i]]
(* design-level facts checked on every input: the count is bounded by both sides, and is    *)
(* symmetric under exchanging the roles of the two sides (the criterion is symmetric)        *)
Bound == pc = "out" => out.mx <= MinI(Len(ref), Len(est))
SwapSym == pc = "out" =>
   LET E2 == IF Mode = "abs" THEN EventEdges(est, ref, w) ELSE ModEdges(est, ref, w, Modulus)
   IN  out.mx = MaxSize(Len(est), E2)
(* C02: the identity pairing is feasible, so a copy of the reference is matched completely *)
SelfMatch == pc = "out" /\ ref = est => out.mx = Len(ref)
Export == pc = "out" =>
   PrintT("ROW" \o ToJson([mode |-> Mode, modulus |-> Modulus, ref |-> ref, est |-> est, w |-> w, mx |-> out.mx, e |-> out.e]))
=============================================================================
