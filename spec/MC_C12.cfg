SPECIFICATION Spec
CONSTANTS P = 4
          NI = 2
          VocabN = 3
INVARIANT SplitInvariant
INVARIANT InRange
INVARIANT DurationConserved
INVARIANT PerfectEstimate
INVARIANT Export
