SPECIFICATION Spec
CONSTANTS NR = 3
          NE = 3
          Cs = {0, 1000, 1200, 2200}
INVARIANT Sane
INVARIANT Export
