SPECIFICATION Spec
CONSTANTS Kind = "onset"
          P = 7
          N = 4
          W = {0, 1, 2}
INVARIANT Sane
INVARIANT Export
