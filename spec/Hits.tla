------------------------------- MODULE Hits -------------------------------
(* Tolerance predicates ("which reference item may be paired with which estimated item"),   *)
(* written from the documentation of util.match_events, multipitch.compute_num_true_        *)
(* positives and transcription.match_notes / match_note_onsets / match_note_offsets.        *)
(* Times and pitches are integers on a lattice; the harness maps them to exact doubles.     *)
EXTENDS Integers, Sequences, Rat

(* |ref[i] - est[j]| <= w *)
EventEdges(ref, est, w) ==
  {<<i, j>> \in (1..Len(ref)) \X (1..Len(est)) : AbsI(ref[i] - est[j]) <= w}

(* circular distance modulo m (chroma): min(|a-b|, m-|a-b|) on a mod m, b mod m *)
ModDist(a, b, m) == LET d == AbsI((a % m) - (b % m)) IN MinI(d, m - d)
ModEdges(ref, est, w, m) ==
  {<<i, j>> \in (1..Len(ref)) \X (1..Len(est)) : ModDist(ref[i], est[j], m) <= w}

(* a note is [on |-> onset, dur |-> duration > 0, p |-> pitch in cents, v |-> velocity]     *)
Within(d, tol, strict) == IF strict THEN d < tol ELSE d <= tol
(* rational tolerance <<n,d>> : dist (integer) compared with n/d *)
WithinR(dist, tol, strict) == IF strict THEN dist * tol[2] < tol[1] ELSE dist * tol[2] <= tol[1]

OnsetOK(r, e, ot, strict)  == WithinR(AbsI(r.on - e.on), ot, strict)
PitchOK(r, e, pt, strict)  == WithinR(AbsI(r.p - e.p), pt, strict)
(* offset tolerance = max(ratio * reference duration, minimum tolerance); ratio, mintol rational *)
OffsetTol(r, ratio, mintol) == RMax(RMul(ratio, R(r.dur)), mintol)
OffsetOK(r, e, ratio, mintol, strict) ==
  WithinR(AbsI((r.on + r.dur) - (e.on + e.dur)), OffsetTol(r, ratio, mintol), strict)

NONE == <<0, 0>>       \* offset_ratio = None

NoteEdges(ref, est, ot, pt, ratio, mintol, strict) ==
  {<<i, j>> \in (1..Len(ref)) \X (1..Len(est)) :
      /\ OnsetOK(ref[i], est[j], ot, strict)
      /\ PitchOK(ref[i], est[j], pt, strict)
      /\ (ratio # NONE => OffsetOK(ref[i], est[j], ratio, mintol, strict))}
OnsetEdges(ref, est, ot, strict) ==
  {<<i, j>> \in (1..Len(ref)) \X (1..Len(est)) : OnsetOK(ref[i], est[j], ot, strict)}
OffsetEdges(ref, est, ratio, mintol, strict) ==
  {<<i, j>> \in (1..Len(ref)) \X (1..Len(est)) : OffsetOK(ref[i], est[j], ratio, mintol, strict)}
=============================================================================
