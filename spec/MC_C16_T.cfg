SPECIFICATION Spec
CONSTANTS T = 6
          NI = 3
          Labels = {"a", "A", "b"}
          FS = {1, 2}
          Step = 1
INVARIANT FormulationsAgree
INVARIANT SwapSym
INVARIANT InRange
INVARIANT PerfectWhenSame
INVARIANT RelabelInv
INVARIANT Export
