SPECIFICATION Spec
CONSTANTS Kind = "bounds"
          P = 9
          NI = 5
          NP = 0
          Labels = {"a", "b"}
INVARIANT SpecAgrees
INVARIANT Export
