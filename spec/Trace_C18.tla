----------------------------- MODULE Trace_C18 -----------------------------
(* The accounting identities of C18 on outcomes RECORDED from multipitch.metrics on larger       *)
(* inputs: m = the 14 scores (encoded floats), tp / tpc = per-frame raw and chroma true           *)
(* positives, nr / ne = per-frame numbers of reference and (resampled) estimate pitches.           *)
EXTENDS Relations, TLC, Json, IOUtils
TraceLog == JsonDeserialize(IOEnv.TRACE_FILE)
VARIABLES i, done
vars == <<i, done>>
Min2(a, b) == IF a <= b THEN a ELSE b
NonNeg(x) == x.c = "fin" /\ x.m9 >= -1
Block(m, o) ==   \* o = 0 raw, 7 chroma:  P R Acc Esub Emiss Efa Etot
  IF ~(\A k \in 1..7 : NonNeg(m[o + k])) THEN "negative-or-not-finite"
  ELSE IF ~(m[o + 7].m6 - (m[o + 4].m6 + m[o + 5].m6 + m[o + 6].m6) \in -3..3)
       THEN "total-error-is-not-the-sum"        \* in units of 1e-6 (error rates may exceed 2, beyond the range of m9)
  ELSE IF ~(Leq(m[o + 3], m[o + 1]) /\ Leq(m[o + 3], m[o + 2])) THEN "accuracy-exceeds-precision-or-recall"
  ELSE IF ~(m[o + 1].m9 <= 1000000001 /\ m[o + 2].m9 <= 1000000001) THEN "precision-or-recall-above-1"
  ELSE "ok"
Verdict(ev) ==
  IF Len(ev.m) # 14 THEN "arity"
  ELSE IF Block(ev.m, 0) # "ok" THEN "raw:" \o Block(ev.m, 0)
  ELSE IF Block(ev.m, 7) # "ok" THEN "chroma:" \o Block(ev.m, 7)
  ELSE IF \E k \in 1..Len(ev.tp) : ev.tp[k] > Min2(ev.nr[k], ev.ne[k]) \/ ev.tpc[k] > Min2(ev.nr[k], ev.ne[k]) THEN "tp-exceeds-min"
  ELSE IF \E k \in 1..Len(ev.tp) : ev.tpc[k] < ev.tp[k] THEN "chroma-count-below-raw-count"
  ELSE IF \E k \in {1, 2, 3} : ~Leq(ev.m[k], ev.m[k + 7]) THEN "chroma-score-below-raw-score"
  ELSE "ok"
Init == i \in 1..Len(TraceLog) /\ done = FALSE
Next == /\ ~done /\ done' = TRUE /\ UNCHANGED i
        /\ LET v == Verdict(TraceLog[i]) IN v # "ok" => PrintT("REJECT" \o ToJson([tid |-> TraceLog[i].tid, clause |-> v]))
Spec == Init /\ [][Next]_vars
=============================================================================
