-------------------------- MODULE MC_C04_pattern --------------------------
(* Every pair of small pattern annotations drawn from a pool (translated, truncated, doubled and  *)
(* unrelated occurrences): the five pattern scores and the first-n variants as exact rationals.   *)
EXTENDS Pattern, TLC, Json
CONSTANTS NP
VARIABLES ref, est, out, pc
vars == <<ref, est, out, pc>>
A == <<<<0, 60>>, <<1, 62>>, <<2, 64>>>>
Sh(o, d) == [k \in 1..Len(o) |-> <<o[k][1] + d, o[k][2]>>]
Up(o, d) == [k \in 1..Len(o) |-> <<o[k][1], o[k][2] + d>>]
B == <<<<0, 60>>, <<2, 61>>>>
C == <<<<5, 70>>>>
Pool == { <<A, Sh(A, 8)>>, <<A>>, <<SubSeq(A, 1, 2), Sh(A, 8)>>, <<Sh(A, 4)>>, <<Up(A, 3), Sh(A, 8)>>,
          <<B, Sh(B, 8), Sh(SubSeq(B, 1, 1), 16)>>, <<C>>, <<A \o <<<<0, 60>>>>, Sh(A, 8)>>, <<SubSeq(A, 2, 3)>> }
Lists == UNION {[1..k -> Pool] : k \in 0..NP}
Init == ref \in Lists /\ est \in Lists /\ out = <<>> /\ pc = "in"
Solve == /\ pc = "in" /\ pc' = "out" /\ UNCHANGED <<ref, est>>
         /\ out' = [std |-> Standard(ref, est), est |-> Establishment(ref, est), occ5 |-> Occurrence(ref, est, <<1, 2>>),
                    occ75 |-> Occurrence(ref, est, <<3, 4>>), three |-> ThreeLayer(ref, est),
                    ffp |-> ThreeLayer(ref, FirstN(est, 1)).p, fftp |-> Establishment(ref, FirstN(est, 1)).r]
Next == Solve
Spec == Init /\ [][Next]_vars
U3(x) == InUnit(x.f) /\ InUnit(x.p) /\ InUnit(x.r)
InRange == pc = "out" => U3(out.est) /\ U3(out.occ5) /\ U3(out.occ75) /\ U3(out.three) /\ InUnit(out.ffp) /\ InUnit(out.fftp)
(* C06 on the definitions: exchanging the annotations exchanges precision and recall *)
SwapSym == pc = "out" => /\ Establishment(est, ref).p = out.est.r /\ Establishment(est, ref).r = out.est.p
                         /\ ThreeLayer(est, ref).p = out.three.r /\ ThreeLayer(est, ref).f = out.three.f
                         /\ Occurrence(est, ref, <<1, 2>>).p = out.occ5.r
(* (TLC found that with a point listed twice in an occurrence even the definitions do not give 1 against *)
(*  itself - |P n Q| counts distinct points, the normalisers count entries - hence the premise NoDup)      *)
NoDup(A_) == \A i \in 1..Len(A_) : \A k \in 1..Len(A_[i]) : Cardinality(PtSet(A_[i][k])) = Len(A_[i][k])
SelfPerfect == pc = "out" /\ ref = est /\ Len(ref) > 0 /\ NoDup(ref) => out.est.f = <<1, 1>> /\ out.three.f = <<1, 1>> /\ out.occ75.f = <<1, 1>>
Export == pc = "out" => PrintT("ROW" \o ToJson([ref |-> ref, est |-> est, out |-> out]))
=============================================================================
