SPECIFICATION Spec
