SPECIFICATION Spec
CONSTANTS NL = 3
          Loaders = {"events", "labeled_events", "intervals", "labeled_intervals", "valued_intervals", "time_series", "key", "tempo"}
INVARIANT Sound
INVARIANT Export
