SPECIFICATION Spec
CONSTANTS Kind = "detect"
          P = 7
          N = 3
          W = {0, 1, 2}
INVARIANT Sane
INVARIANT Export
