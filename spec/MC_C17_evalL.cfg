SPECIFICATION Spec
CONSTANTS T = 3
          NLR = 2
          NLE = 1
          NS = 2
          Labels = {"a", "b"}
          FS = {1}
          Windows = {0}
          EStarts = {0, 1}
          EEnds = {2, 4}
INVARIANT Aligned
INVARIANT InRange
INVARIANT Export
