SPECIFICATION Spec
CONSTANTS Kind = "aor"
          P = 0
          N = 2
          W = {0}
INVARIANT Sane
INVARIANT Export
