------------------------------ MODULE MC_C12 ------------------------------
(* chord.evaluate on every pair of small chord annotations on a lattice, run through the stage  *)
(* machine of ChordEval, with the Split transformation: each behaviour evaluates an annotation   *)
(* pair, then cuts one interval of the reference or of the estimate at an interior lattice point *)
(* (both pieces keep the label) and evaluates again.  Invariant: all 15 scores are unchanged      *)
(* (C12), every score is in [0,1] (C01) and the perfect estimate scores 1 (C02).                  *)
EXTENDS ChordEval, Json
CONSTANTS P, NI, VocabN
VARIABLES ref, est, pc, st, base, cut
vars == <<ref, est, pc, st, base, cut>>

Mk(l, a, sh, ds, b) == [kind |-> "chord", letter |-> l, acc |-> a, sh |-> sh, degs |-> ds, bass |-> b]
Vocab == << [kind |-> "N"], Mk("C", 0, "none", <<>>, <<>>), Mk("G", 0, "min", <<>>, <<>>), Mk("C", 0, "maj", <<>>, <<>>),
            Mk("C", 0, "7", <<>>, <<>>), [kind |-> "X"], Mk("C", 0, "maj", <<>>, <<[acc |-> 0, num |-> 3]>>),
            Mk("G", 0, "min7", <<>>, <<>>) >>
Enc(i)  == Encode(Vocab[i], FALSE, FALSE)
EncR(i) == Encode(Vocab[i], TRUE, FALSE)
Segs(lo, hi) == {IntervalsOf(SortSet(T \cup {lo, hi})) : T \in {X \in SUBSET ((lo + 1)..(hi - 1)) : Cardinality(X) <= NI - 1}}
Ann(lo, hi) == UNION {{[ivs |-> iv, labs |-> l] : l \in [1..Len(iv) -> 1..VocabN]} : iv \in Segs(lo, hi)}

(* the stage machine: st holds the intermediate values after each stage *)
Eval(r, e) ==
  LET lo == r.ivs[1][1]  hi == r.ivs[Len(r.ivs)][2]
      adj == AdjustSpec(e.ivs, e.labs, lo, hi, 1, 1)                    \* fill with "N" (vocabulary index 1)
      mref == MergeChords(r.ivs, [i \in 1..Len(r.ivs) |-> EncR(r.labs[i])])
      mest == MergeChords(adj.ivs, [i \in 1..Len(adj.ivs) |-> EncR(adj.labs[i])])
      mg == MergeSpec(r.ivs, r.labs, adj.ivs, adj.labs)
      dur == [i \in 1..Len(mg.ivs) |-> mg.ivs[i][2] - mg.ivs[i][1]]
      cmp == [i \in 1..Len(mg.ivs) |-> Compare(Enc(mg.xl[i]), Enc(mg.yl[i]))]
      acc == [j \in 1..12 |-> WAcc([i \in 1..Len(cmp) |-> cmp[i][j]], dur)]
      under == UnderSeg(mref, mest)
      over == OverSeg(mref, mest)
  IN  [adj |-> adj, mref |-> mref, mest |-> mest, merged |-> mg, dur |-> dur, acc |-> acc,
       under |-> under, over |-> over, seg |-> RMin(under, over)]

SplitAt(a, i, t) ==
  [ivs |-> SubSeq(a.ivs, 1, i - 1) \o <<<<a.ivs[i][1], t>>, <<t, a.ivs[i][2]>>>> \o SubSeq(a.ivs, i + 1, Len(a.ivs)),
   labs |-> SubSeq(a.labs, 1, i - 1) \o <<a.labs[i], a.labs[i]>> \o SubSeq(a.labs, i + 1, Len(a.labs))]
Cuts(a) == {<<i, t>> \in (1..Len(a.ivs)) \X (0..(P + 1)) : a.ivs[i][1] < t /\ t < a.ivs[i][2]}

Init == /\ ref \in Ann(0, P)
        /\ est \in UNION {Ann(a, b) : a \in {0, 1}, b \in {P - 1, P, P + 1}}
        /\ pc = "in" /\ st = <<>> /\ base = <<>> /\ cut = <<>>
Evaluate == /\ pc = "in" /\ st' = Eval(ref, est) /\ base' = Eval(ref, est) /\ pc' = "evaluated"
            /\ UNCHANGED <<ref, est, cut>>
SplitRef == /\ pc = "evaluated" /\ \E c \in Cuts(ref) : ref' = SplitAt(ref, c[1], c[2]) /\ cut' = <<"ref", c[1], c[2]>>
            /\ pc' = "split" /\ UNCHANGED <<est, st, base>>
SplitEst == /\ pc = "evaluated" /\ \E c \in Cuts(est) : est' = SplitAt(est, c[1], c[2]) /\ cut' = <<"est", c[1], c[2]>>
            /\ pc' = "split" /\ UNCHANGED <<ref, st, base>>
ReEvaluate == /\ pc = "split" /\ st' = Eval(ref, est) /\ pc' = "done" /\ UNCHANGED <<ref, est, base, cut>>
Next == Evaluate \/ SplitRef \/ SplitEst \/ ReEvaluate
Spec == Init /\ [][Next]_vars

Scores(s) == <<s.acc, s.under, s.over, s.seg>>
Comparable(s) == \A j \in 1..12 : IsDefined(s.acc[j])
SplitInvariant == pc = "done" => Scores(st) = Scores(base)
InRange == pc \in {"evaluated", "done"} =>
   /\ \A j \in 1..12 : IsDefined(st.acc[j]) => InUnit(st.acc[j])
   /\ InUnit(st.under) /\ InUnit(st.over) /\ InUnit(st.seg)
DurationConserved == pc \in {"evaluated", "done"} => SumSeq(st.dur) = P
(* C02: a copy of the reference scores 1 on every rule whose vocabulary contains its labels *)
PerfectEstimate == pc = "evaluated" /\ est = ref /\ (\A i \in 1..Len(ref.labs) : ref.labs[i] \in 1..3) =>
   /\ \A j \in 1..12 : st.acc[j] = <<1, 1>>
   /\ st.under = <<1, 1>> /\ st.over = <<1, 1>> /\ st.seg = <<1, 1>>
Export == pc \in {"evaluated", "done"} =>
   PrintT("ROW" \o ToJson([pc |-> pc, ref |-> ref, est |-> est, cut |-> cut,
                            vocab |-> [i \in 1..VocabN |-> i], st |-> st]))
=============================================================================
