SPECIFICATION Spec
CONSTANTS Kind = "adjust"
          P = 6
          NI = 3
          NP = 0
          Labels = {"a", "b", "c"}
INVARIANT SpecAgrees
INVARIANT Export
