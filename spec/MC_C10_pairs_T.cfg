SPECIFICATION Spec
CONSTANTS Family = "pairs"
          Accs <- A0
          DegNums = {1, 2, 3, 4, 5, 6, 7, 9, 10, 11, 13}
          DegAccs <- A3
          BassSet <- BassQ
INVARIANT EncodingSound
INVARIANT StrictOnlyRejects
INVARIANT ParseInverts
INVARIANT Export
