--------------------------------- MODULE IO ---------------------------------
(* Annotation-file loaders (C20) as a per-line machine.  A file is a sequence of line kinds; a  *)
(* loader is a column schema (f = float, s = string; the LAST column takes the rest of the line) *)
(* plus, for key and tempo files, the single-data-line rule.  Reading line by line:              *)
(*    comment line         -> skipped (but it still counts for row numbers)                      *)
(*    row with n fields    -> appended                                                            *)
(*    too few fields       -> ValueError naming the row                                           *)
(*    extra fields         -> part of the last column when that is a string, otherwise the last   *)
(*                            number is unparsable: ValueError naming the row                     *)
(*    unparsable number    -> ValueError naming the row                                           *)
(*    blank line           -> ValueError naming the row                                           *)
(* The first offending line decides.  Values are abstract here: the harness writes concrete      *)
(* numbers/labels and compares what comes back bit by bit, in file order.                         *)
EXTENDS Integers, Sequences, FiniteSets
Schemas == [events |-> <<"f">>, labeled_events |-> <<"f", "s">>, intervals |-> <<"f", "f">>,
            labeled_intervals |-> <<"f", "f", "s">>, valued_intervals |-> <<"f", "f", "f">>,
            time_series |-> <<"f", "f">>, key |-> <<"s", "s">>, tempo |-> <<"f", "f", "f">>]
LineKinds == {"comment", "good", "short", "long", "badnum", "spacedlabel", "blank"}
LastIsString(sc) == sc[Len(sc)] = "s"
HasFloat(sc) == \E i \in 1..Len(sc) : sc[i] = "f"
(* what one line does: "skip", "row", or "error" *)
Effect(kind, sc) ==
  CASE kind = "comment" -> "skip"
    [] kind = "good" -> "row"
    [] kind = "spacedlabel" -> "row"
    [] kind = "short" -> "error"
    [] kind = "blank" -> "error"
    [] kind = "long" -> IF LastIsString(sc) THEN "row" ELSE "error"
    [] kind = "badnum" -> IF HasFloat(sc) THEN "error" ELSE "row"
(* the machine: position, rows accepted so far (their line numbers), status *)
RECURSIVE Run(_, _, _, _)
Run(file, sc, pos, rows) ==
  IF pos > Len(file) THEN [status |-> "ok", rows |-> rows, errrow |-> 0]
  ELSE LET e == Effect(file[pos], sc) IN
       IF e = "error" THEN [status |-> "error", rows |-> rows, errrow |-> pos]
       ELSE IF e = "skip" THEN Run(file, sc, pos + 1, rows)
       ELSE Run(file, sc, pos + 1, Append(rows, pos))
(* key and tempo files must hold exactly one data line; checked after the whole file parsed *)
Load(loader, file) ==
  LET r == Run(file, Schemas[loader], 1, <<>>) IN
  IF r.status = "error" THEN r
  ELSE IF loader \in {"key", "tempo"} /\ Len(r.rows) # 1 THEN [status |-> "error-lines", rows |-> r.rows, errrow |-> 0]
  ELSE r

(* ---- pattern files (io.load_patterns): lines "patternN", "occurrenceM" and "onset, midi" points.   *)
(* A point belongs to the current occurrence, an occurrence header closes the current occurrence,     *)
(* a pattern header closes the current occurrence and the current pattern; occurrences without        *)
(* points and patterns without occurrences do not appear in the result.  Points are identified by      *)
(* their line number.                                                                                  *)
RECURSIVE PatRun(_, _, _, _, _)
PatRun(file, pos, plist, pat, occ) ==
  LET pat2 == IF occ # <<>> THEN Append(pat, occ) ELSE pat IN
  IF pos > Len(file) THEN (IF pat2 # <<>> THEN Append(plist, pat2) ELSE plist)
  ELSE IF file[pos] = "pattern" THEN PatRun(file, pos + 1, IF pat2 # <<>> THEN Append(plist, pat2) ELSE plist, <<>>, <<>>)
  ELSE IF file[pos] = "occurrence" THEN PatRun(file, pos + 1, plist, pat2, <<>>)
  ELSE PatRun(file, pos + 1, plist, pat, Append(occ, pos))
LoadPatterns(file) == PatRun(file, 1, <<>>, <<>>, <<>>)
(* the same by definition: the points between two consecutive headers form one occurrence; the          *)
(* occurrences between two consecutive pattern headers form one pattern                                  *)
Points(file) == {p \in 1..Len(file) : file[p] = "point"}
SameOcc(file, a, b) == \A q \in (IF a < b THEN a..b ELSE b..a) : file[q] = "point"
SamePat(file, a, b) == \A q \in (IF a < b THEN a..b ELSE b..a) : file[q] # "pattern"
=============================================================================
