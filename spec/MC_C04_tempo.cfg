SPECIFICATION Spec
CONSTANTS Kind = "tempo"
          P = 0
          N = 0
          W = {0}
INVARIANT Sane
INVARIANT Export
