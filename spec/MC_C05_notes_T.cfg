SPECIFICATION Spec
CONSTANTS Onsets = {0, 1, 2}
          Durs = {1, 3}
          Pitches = {0, 40}
          N = 2
          OnTols <- OnTolsT
          Ratios <- RatiosT
          MinTols <- MinTolsT
          PitchTol <- PitchTolD
INVARIANT Nested
INVARIANT StrictSub
INVARIANT Export
