-------------------------------- MODULE Beat --------------------------------
(* Beat tracking scores per Davies, Degara & Plumbley (2009) as mir_eval documents them.         *)
(* Beats are integers on a lattice whose unit is 0.25 s (= 25 samples of the 10 ms P-score grid;   *)
(* values are doubled where metrical-level variations need midpoints).                              *)
(* P-score is stated as a count of pairs of impulse positions; Goto and the Cemgil variations are    *)
(* necessarily procedural (the paper defines them by procedure) - said so in DESIGN.md.               *)
EXTENDS Integers, Sequences, FiniteSets, Rat
SeqSet(s) == {s[k] : k \in 1..Len(s)}
RECURSIVE SortSetB(_)
SortSetB(S) == IF S = {} THEN <<>> ELSE LET m == MinSet(S) IN <<m>> \o SortSetB(S \ {m})
AbsR(x) == IF x < 0 THEN -x ELSE x
RECURSIVE SortSetB2(_)
SortSetB2(s) == IF s = <<>> THEN <<>> ELSE      \* sort a sequence of integers (duplicates kept)
  LET m == MinSet(SeqSet(s))  i == CHOOSE k \in 1..Len(s) : s[k] = m
  IN  <<m>> \o SortSetB2(SubSeq(s, 1, i - 1) \o SubSeq(s, i + 1, Len(s)))
SubSeqSafe(s, a, b) == IF a > b THEN <<>> ELSE SubSeq(s, a, b)

(* ---- P-score (McKinney et al.): impulse trains on a 10 ms grid, cross-correlation within a window of *)
(* round(threshold x median reference inter-beat interval) samples, divided by max(#ref, #est)        *)
SPB == 25       \* samples per lattice unit
MedianInts2(s) ==     \* twice the median of a sorted sequence of integers (to stay integral)
  LET n == Len(s) IN IF n % 2 = 1 THEN 2 * s[(n + 1) \div 2] ELSE s[n \div 2] + s[n \div 2 + 1]
(* round-half-even of the rational a/b (b > 0) *)
RoundHalfEven(a, b) ==
  LET q == a \div b  r == a % b IN
  IF 2 * r < b THEN q ELSE IF 2 * r > b THEN q + 1 ELSE (IF q % 2 = 0 THEN q ELSE q + 1)
PScoreWin(ref, thr) ==        \* thr = <<n, d>>; window in samples
  LET idx == SortSetB(SeqSet(ref))
      dif == [k \in 1..(Len(idx) - 1) |-> (idx[k + 1] - idx[k]) * SPB]
      med2 == MedianInts2(SortSetB2(dif))
  IN  [win |-> RoundHalfEven(thr[1] * med2, 2 * thr[2]), tie |-> (2 * ((thr[1] * med2) % (2 * thr[2])) = 2 * thr[2])]
PScore(ref, est, thr) ==
  IF Len(ref) <= 1 \/ Len(est) <= 1 THEN [score |-> <<0, 1>>, tie |-> FALSE, defined |-> TRUE]
  ELSE IF Cardinality(SeqSet(ref)) < 2 THEN [score |-> <<0, 1>>, tie |-> FALSE, defined |-> FALSE]   \* no inter-beat interval
  ELSE LET w == PScoreWin(ref, thr)
           pairs == Cardinality({<<a, b>> \in SeqSet(ref) \X SeqSet(est) : AbsR(a - b) * SPB <= w.win})
       IN  [score |-> Norm(pairs, MaxI(Len(ref), Len(est))), tie |-> w.tie, defined |-> TRUE]

(* ---- Cemgil: Gaussian error of each reference beat to its nearest estimate, for the annotation and   *)
(* its metrical variations (double, off-beat, the two half-tempo versions); beats here are EVEN ints     *)
Mid(ref) == [k \in 1..(Len(ref) - 1) |-> (ref[k] + ref[k + 1]) \div 2]
Double(ref) == IF Len(ref) = 0 THEN <<>> ELSE [k \in 1..(2 * Len(ref) - 1) |-> IF k % 2 = 1 THEN ref[(k + 1) \div 2] ELSE Mid(ref)[k \div 2]]
EveryOther(s, start) == [k \in 1..((Len(s) - start + 2) \div 2) |-> s[start + 2 * (k - 1)]]
Variations(ref) == <<ref, (IF Len(ref) <= 1 THEN <<>> ELSE Mid(ref)), Double(ref), EveryOther(ref, 1),
                     (IF Len(ref) <= 1 THEN <<>> ELSE EveryOther(ref, 2))>>
NearestSq(b, est) == MinSet({(b - est[k]) * (b - est[k]) : k \in 1..Len(est)})
(* per variation: the squared distances (lattice units^2) and the normaliser (#est + #variation)/2 *)
CemgilTerms(ref, est) ==
  [v \in 1..5 |-> LET var == Variations(ref)[v] IN
                  [sq |-> [k \in 1..Len(var) |-> NearestSq(var[k], est)], norm2 |-> Len(est) + Len(var)]]

(* ---- Goto: a single estimate inside each interior reference beat's half-interval window, normalised  *)
(* error; the longest run between incorrect beats must cover more than a quarter of the interior beats   *)
(* and have mean |error| < mu and sample standard deviation < sigma                                       *)
GotoErrors(ref, est) ==
  [n \in 1..Len(ref) |->
     IF n = 1 \/ n = Len(ref) THEN <<1, 1>>
     ELSE LET lo2 == 2 * ref[n] - (ref[n] - ref[n - 1])          \* 2 x window bounds (half intervals)
              hi2 == 2 * ref[n] + (ref[n + 1] - ref[n])
              inw == {k \in 1..Len(est) : 2 * est[k] >= lo2 /\ 2 * est[k] < hi2}
          IN  IF Cardinality(inw) # 1 THEN <<1, 1>>
              ELSE LET e == est[CHOOSE k \in inw : TRUE]  off == e - ref[n] IN
                   IF off < 0 THEN Norm(2 * off, ref[n] - ref[n - 1]) ELSE Norm(2 * off, ref[n + 1] - ref[n])]
RMeanSeq(s) == RDiv(RSumSeq(s), R(Len(s)))
TrackOK(track, mu, sigma) ==
  IF Len(track) < 2 THEN FALSE
  ELSE LET m == RMeanSeq(track)
           mabs == RMeanSeq([k \in 1..Len(track) |-> RAbs(track[k])])
           var == RDiv(RSumSeq([k \in 1..Len(track) |-> RMul(RSub(track[k], m), RSub(track[k], m))]), R(Len(track) - 1))
       IN  RLt(mabs, mu) /\ RLt(var, RMul(sigma, sigma))
Goto(ref, est, thr, mu, sigma) ==
  IF Len(ref) = 0 \/ Len(est) = 0 THEN FALSE
  ELSE LET err == GotoErrors(ref, est)
           N == Len(ref)
           bad == SortSetB({n \in 1..N : RLt(thr, RAbs(err[n]))})
       IN  IF Len(bad) < 3 THEN
             (IF Len(bad) = 0 THEN FALSE          \* (unreachable for N >= 1: the end beats are always incorrect)
              ELSE TrackOK(SubSeqSafe(err, bad[1] + 1, bad[Len(bad)] - 2), mu, sigma))
           ELSE LET gaps == [k \in 1..(Len(bad) - 1) |-> bad[k + 1] - bad[k]]
                    len == MaxSet(SeqSet(gaps))
                    st == CHOOSE k \in 1..Len(gaps) : gaps[k] = len /\ \A j \in 1..(k - 1) : gaps[j] # len
                IN  IF 4 * (len - 1) > (N - 2) THEN TrackOK(SubSeqSafe(err, bad[st], bad[st + 1]), mu, sigma) ELSE FALSE

(* ---- Continuity (Hainsworth / Klapuri; Davies et al. sec. 3.4): each estimated beat is assigned to  *)
(* its nearest annotation (first of equals); it is correct when that annotation is still unused and   *)
(* both the phase error |offset| / annotation interval and the period error |1 - estimated interval /   *)
(* annotation interval| are below their thresholds.  CMLc = longest run of correct beats, CMLt = all     *)
(* correct beats, both divided by max(#annotations, #estimates); AML* = best over the metrical          *)
(* variations.  Necessarily procedural (the paper defines it by this walk).                              *)
Nearest1(x, ref) == CHOOSE k \in 1..Len(ref) : /\ \A j \in 1..Len(ref) : AbsR(x - ref[k]) <= AbsR(x - ref[j])
                                              /\ \A j \in 1..(k - 1) : AbsR(x - ref[j]) > AbsR(x - ref[k])
INF == <<1, 0>>       \* "infinite" error: never below a threshold
LtThr(x, thr) == x # INF /\ RLt(x, thr)
ContBeatOK(ref, est, m, k, pthr, qthr) ==
  LET md == AbsR(est[m] - ref[k])
      firstcase == m = 1 \/ k = 1
      rint == IF firstcase THEN (IF k + 1 <= Len(ref) THEN ref[k + 1] - ref[k] ELSE ref[k] - ref[IF k = 1 THEN Len(ref) ELSE k - 1])
              ELSE ref[k] - ref[k - 1]
      eint == IF firstcase THEN (IF m + 1 <= Len(est) THEN est[m + 1] - est[m] ELSE est[m] - est[IF m = 1 THEN Len(est) ELSE m - 1])
              ELSE est[m] - est[m - 1]
      phase == IF rint = 0 THEN (IF md = 0 THEN <<1, 1>> ELSE INF) ELSE RAbs(Norm(md, rint))
      period == IF rint = 0 THEN (IF eint = 0 THEN <<0, 1>> ELSE INF) ELSE RAbs(RSub(<<1, 1>>, Norm(eint, rint)))
  IN  LtThr(phase, pthr) /\ LtThr(period, qthr)
RECURSIVE ContWalk(_, _, _, _, _, _, _)
ContWalk(ref, est, m, used, succ, pthr, qthr) ==
  IF m > Len(est) THEN succ
  ELSE LET k == Nearest1(est[m], ref)
           ok == k \notin used /\ ContBeatOK(ref, est, m, k, pthr, qthr)
       IN  ContWalk(ref, est, m + 1, IF ok THEN used \cup {k} ELSE used, Append(succ, IF ok THEN 1 ELSE 0), pthr, qthr)
RECURSIVE LongestRun(_, _, _, _)
LongestRun(s, i, cur, best) == IF i > Len(s) THEN MaxI(cur, best)
                               ELSE IF s[i] = 1 THEN LongestRun(s, i + 1, cur + 1, best) ELSE LongestRun(s, i + 1, 0, MaxI(cur, best))
ContOne(ref, est, pthr, qthr) ==
  LET succ == ContWalk(ref, est, 1, {}, <<>>, pthr, qthr)
      n == MaxI(Len(ref), Len(est))
  IN  <<Norm(LongestRun(succ, 1, 0, 0), n), Norm(SumSeq(succ), n)>>
Continuity(ref, est, pthr, qthr) ==
  IF Len(ref) <= 1 \/ Len(est) <= 1 THEN <<<<0, 1>>, <<0, 1>>, <<0, 1>>, <<0, 1>>>>
  ELSE LET vs == Variations(ref)
           rs == [v \in 1..5 |-> ContOne(vs[v], est, pthr, qthr)]
           best(i) == CHOOSE x \in {rs[v][i] : v \in 1..5} : \A y \in {rs[v][i] : v \in 1..5} : RLeq(y, x)
       IN  <<rs[1][1], rs[1][2], best(1), best(2)>>

(* ---- Information gain (Davies et al. sec. 3.5): error of every estimated beat relative to the        *)
(* interval around its nearest annotation (the preceding interval for an early beat, the following for   *)
(* a late one; the only available interval at either end), wrapped to (-1/2, 1/2], histogrammed into      *)
(* `bins` equal bins; the spec returns the counts (the entropy is evaluated by the harness) for both       *)
(* directions, a flag when some error falls exactly on a bin edge, and a flag for the case in which        *)
(* mir_eval departs from the toolbox's if / elseif / else (an estimate earlier than the first annotation). *)
IGErr(ref, x) ==
  LET k == Nearest1(x, ref)
      err == x - ref[k]
      gap == IF k = 1 THEN ref[2] - ref[1]
             ELSE IF k = Len(ref) THEN ref[k] - ref[k - 1]
             ELSE IF err < 0 THEN ref[k] - ref[k - 1] ELSE ref[k + 1] - ref[k]
  IN  [e |-> Norm(err, gap), early |-> k = 1 /\ err < 0]
(* wrap to (-1/2, 1/2] *)
Wrap(e) == LET t == RAdd(e, <<1, 2>>)                \* t - ceil(t) + 1/2 ... in (-1,0] + 1/2
               c == IF t[1] % t[2] = 0 THEN t[1] \div t[2] ELSE (t[1] \div t[2]) + 1
           IN  RAdd(RSub(t, R(c)), <<1, 2>>)
BinOf(e, bins) == LET y == RMul(RAdd(e, <<1, 2>>), R(bins))          \* in (0, bins]
                      q == y[1] \div y[2]
                  IN  [bin |-> IF y[1] % y[2] = 0 THEN (IF q = bins THEN bins ELSE q + 1) ELSE q + 1, edge |-> y[1] % y[2] = 0]
IGCounts(ref, est, bins) ==
  LET errs == [m \in 1..Len(est) |-> Wrap(IGErr(ref, est[m]).e)]
      bs == [m \in 1..Len(est) |-> BinOf(errs[m], bins)]
  IN  [counts |-> [b \in 1..bins |-> Cardinality({m \in 1..Len(est) : bs[m].bin = b})],
       edge |-> \E m \in 1..Len(est) : bs[m].edge,
       early |-> \E m \in 1..Len(est) : IGErr(ref, est[m]).early]
=============================================================================
