-------------------------------- MODULE Beat --------------------------------
(* Beat tracking scores per Davies, Degara & Plumbley (2009) as mir_eval documents them.         *)
(* Beats are integers on a lattice whose unit is 0.25 s (= 25 samples of the 10 ms P-score grid;   *)
(* values are doubled where metrical-level variations need midpoints).                              *)
(* P-score is stated as a count of pairs of impulse positions; Goto and the Cemgil variations are    *)
(* necessarily procedural (the paper defines them by procedure) - said so in DESIGN.md.               *)
EXTENDS Integers, Sequences, FiniteSets, Rat
SeqSet(s) == {s[k] : k \in 1..Len(s)}
RECURSIVE SortSetB(_)
SortSetB(S) == IF S = {} THEN <<>> ELSE LET m == MinSet(S) IN <<m>> \o SortSetB(S \ {m})
AbsR(x) == IF x < 0 THEN -x ELSE x
RECURSIVE SortSetB2(_)
SortSetB2(s) == IF s = <<>> THEN <<>> ELSE      \* sort a sequence of integers (duplicates kept)
  LET m == MinSet(SeqSet(s))  i == CHOOSE k \in 1..Len(s) : s[k] = m
  IN  <<m>> \o SortSetB2(SubSeq(s, 1, i - 1) \o SubSeq(s, i + 1, Len(s)))
SubSeqSafe(s, a, b) == IF a > b THEN <<>> ELSE SubSeq(s, a, b)

(* ---- P-score (McKinney et al.): impulse trains on a 10 ms grid, cross-correlation within a window of *)
(* round(threshold x median reference inter-beat interval) samples, divided by max(#ref, #est)        *)
SPB == 25       \* samples per lattice unit
MedianInts2(s) ==     \* twice the median of a sorted sequence of integers (to stay integral)
  LET n == Len(s) IN IF n % 2 = 1 THEN 2 * s[(n + 1) \div 2] ELSE s[n \div 2] + s[n \div 2 + 1]
(* round-half-even of the rational a/b (b > 0) *)
RoundHalfEven(a, b) ==
  LET q == a \div b  r == a % b IN
  IF 2 * r < b THEN q ELSE IF 2 * r > b THEN q + 1 ELSE (IF q % 2 = 0 THEN q ELSE q + 1)
PScoreWin(ref, thr) ==        \* thr = <<n, d>>; window in samples
  LET idx == SortSetB(SeqSet(ref))
      dif == [k \in 1..(Len(idx) - 1) |-> (idx[k + 1] - idx[k]) * SPB]
      med2 == MedianInts2(SortSetB2(dif))
  IN  [win |-> RoundHalfEven(thr[1] * med2, 2 * thr[2]), tie |-> (2 * ((thr[1] * med2) % (2 * thr[2])) = 2 * thr[2])]
PScore(ref, est, thr) ==
  IF Len(ref) <= 1 \/ Len(est) <= 1 THEN [score |-> <<0, 1>>, tie |-> FALSE, defined |-> TRUE]
  ELSE IF Cardinality(SeqSet(ref)) < 2 THEN [score |-> <<0, 1>>, tie |-> FALSE, defined |-> FALSE]   \* no inter-beat interval
  ELSE LET w == PScoreWin(ref, thr)
           pairs == Cardinality({<<a, b>> \in SeqSet(ref) \X SeqSet(est) : AbsR(a - b) * SPB <= w.win})
       IN  [score |-> Norm(pairs, MaxI(Len(ref), Len(est))), tie |-> w.tie, defined |-> TRUE]

(* ---- Cemgil: Gaussian error of each reference beat to its nearest estimate, for the annotation and   *)
(* its metrical variations (double, off-beat, the two half-tempo versions); beats here are EVEN ints     *)
Mid(ref) == [k \in 1..(Len(ref) - 1) |-> (ref[k] + ref[k + 1]) \div 2]
Double(ref) == IF Len(ref) = 0 THEN <<>> ELSE [k \in 1..(2 * Len(ref) - 1) |-> IF k % 2 = 1 THEN ref[(k + 1) \div 2] ELSE Mid(ref)[k \div 2]]
EveryOther(s, start) == [k \in 1..((Len(s) - start + 2) \div 2) |-> s[start + 2 * (k - 1)]]
Variations(ref) == <<ref, (IF Len(ref) <= 1 THEN <<>> ELSE Mid(ref)), Double(ref), EveryOther(ref, 1),
                     (IF Len(ref) <= 1 THEN <<>> ELSE EveryOther(ref, 2))>>
NearestSq(b, est) == MinSet({(b - est[k]) * (b - est[k]) : k \in 1..Len(est)})
(* per variation: the squared distances (lattice units^2) and the normaliser (#est + #variation)/2 *)
CemgilTerms(ref, est) ==
  [v \in 1..5 |-> LET var == Variations(ref)[v] IN
                  [sq |-> [k \in 1..Len(var) |-> NearestSq(var[k], est)], norm2 |-> Len(est) + Len(var)]]

(* ---- Goto: a single estimate inside each interior reference beat's half-interval window, normalised  *)
(* error; the longest run between incorrect beats must cover more than a quarter of the interior beats   *)
(* and have mean |error| < mu and sample standard deviation < sigma                                       *)
GotoErrors(ref, est) ==
  [n \in 1..Len(ref) |->
     IF n = 1 \/ n = Len(ref) THEN <<1, 1>>
     ELSE LET lo2 == 2 * ref[n] - (ref[n] - ref[n - 1])          \* 2 x window bounds (half intervals)
              hi2 == 2 * ref[n] + (ref[n + 1] - ref[n])
              inw == {k \in 1..Len(est) : 2 * est[k] >= lo2 /\ 2 * est[k] < hi2}
          IN  IF Cardinality(inw) # 1 THEN <<1, 1>>
              ELSE LET e == est[CHOOSE k \in inw : TRUE]  off == e - ref[n] IN
                   IF off < 0 THEN Norm(2 * off, ref[n] - ref[n - 1]) ELSE Norm(2 * off, ref[n + 1] - ref[n])]
RMeanSeq(s) == RDiv(RSumSeq(s), R(Len(s)))
TrackOK(track, mu, sigma) ==
  IF Len(track) < 2 THEN FALSE
  ELSE LET m == RMeanSeq(track)
           mabs == RMeanSeq([k \in 1..Len(track) |-> RAbs(track[k])])
           var == RDiv(RSumSeq([k \in 1..Len(track) |-> RMul(RSub(track[k], m), RSub(track[k], m))]), R(Len(track) - 1))
       IN  RLt(mabs, mu) /\ RLt(var, RMul(sigma, sigma))
Goto(ref, est, thr, mu, sigma) ==
  IF Len(ref) = 0 \/ Len(est) = 0 THEN FALSE
  ELSE LET err == GotoErrors(ref, est)
           N == Len(ref)
           bad == SortSetB({n \in 1..N : RLt(thr, RAbs(err[n]))})
       IN  IF Len(bad) < 3 THEN
             (IF Len(bad) = 0 THEN FALSE          \* (unreachable for N >= 1: the end beats are always incorrect)
              ELSE TrackOK(SubSeqSafe(err, bad[1] + 1, bad[Len(bad)] - 2), mu, sigma))
           ELSE LET gaps == [k \in 1..(Len(bad) - 1) |-> bad[k + 1] - bad[k]]
                    len == MaxSet(SeqSet(gaps))
                    st == CHOOSE k \in 1..Len(gaps) : gaps[k] = len /\ \A j \in 1..(k - 1) : gaps[j] # len
                IN  IF 4 * (len - 1) > (N - 2) THEN TrackOK(SubSeqSafe(err, bad[st], bad[st + 1]), mu, sigma) ELSE FALSE
=============================================================================
