---------------------------- MODULE Trace_C11 ----------------------------
(* The documented lattice of the twelve chord comparison rules, judged on values RECORDED from the  *)
(* code for label pairs that no model enumerates (the real vocabulary of the repository's chord     *)
(* fixtures).  One event per reference label: the twelve values of (ref, ref) and of (ref, est) for  *)
(* every estimated label it was paired with.  Rule order = Chord!RuleNames.                          *)
EXTENDS Chord, TLC, Json, IOUtils
TraceLog == JsonDeserialize(IOEnv.TRACE_FILE)
VARIABLES i, done
vars == <<i, done>>
Idx(name) == CHOOSE j \in 1..12 : RuleNames[j] = name
Imp(v, a, b) == v[Idx(a)] = 1 => v[Idx(b)] = 1
LatticeOK(v) ==
  /\ Imp(v, "tetrads_inv", "tetrads") /\ Imp(v, "tetrads", "triads") /\ Imp(v, "triads", "thirds") /\ Imp(v, "thirds", "root")
  /\ Imp(v, "thirds_inv", "thirds") /\ Imp(v, "triads_inv", "triads") /\ Imp(v, "majmin_inv", "majmin") /\ Imp(v, "sevenths_inv", "sevenths")
  /\ Imp(v, "majmin", "triads") /\ Imp(v, "sevenths", "tetrads")
  /\ (v[Idx("tetrads")] = 1 => v[Idx("mirex")] # 0)
Verdict(ev) ==
  IF Len(ev.self) # 12 \/ \E k \in 1..Len(ev.vals) : Len(ev.vals[k]) # 12 THEN "arity"
  ELSE IF \E j \in 1..12 : ev.self[j] \notin {-1, 0, 1} \/ \E k \in 1..Len(ev.vals) : ev.vals[k][j] \notin {-1, 0, 1} THEN "value-not-in-{-1,0,1}"
  ELSE IF \E j \in 1..12 : ev.self[j] = 0 THEN "label-does-not-match-itself"
  ELSE IF \E j \in 1..12 : \E k \in 1..Len(ev.vals) : (ev.vals[k][j] = -1) # (ev.self[j] = -1) THEN "ignored-depends-on-the-estimate"
  ELSE IF ~LatticeOK(ev.self) \/ \E k \in 1..Len(ev.vals) : ~LatticeOK(ev.vals[k]) THEN "stricter-rule-does-not-imply-looser"
  ELSE "ok"
Init == i \in 1..Len(TraceLog) /\ done = FALSE
Next == /\ ~done /\ done' = TRUE /\ UNCHANGED i
        /\ LET v == Verdict(TraceLog[i]) IN v # "ok" => PrintT("REJECT" \o ToJson([tid |-> TraceLog[i].tid, clause |-> v]))
Spec == Init /\ [][Next]_vars
=============================================================================
