SPECIFICATION Spec
CONSTANTS NL = 4
          NR = 5
INVARIANT SymInv
INVARIANT Export
