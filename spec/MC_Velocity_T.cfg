SPECIFICATION Spec
CONSTANTS N = 4
          Vs = {0, 1, 3, 8}
          Tols <- TolsQ
          U = 2
          Extra = {0, 9, 30}
INVARIANT NormalEq
INVARIANT TolMonotone
INVARIANT AffinePerfect
INVARIANT Export
