SPECIFICATION Spec
