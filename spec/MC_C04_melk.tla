--------------------------- MODULE MC_C04_melk ---------------------------
(* melody.evaluate with explicit est_voicing / ref_reward (binary or continuous), resampling kind      *)
(* linear / zero / nearest and an optional constant hop: MelodyPre!ToCentVoicingK + the five measures.   *)
(* Reference frames every 2 lattice units (optionally starting late), estimate frames every RStep units  *)
(* (2 or 3), hop in Hops (0 = none).                                                                     *)
EXTENDS MelodyPre, TLC, Json
CONSTANTS NR, NE, Frame, Hops, Kinds, ESteps
VARIABLES ref, est, hop, kind, out, pc
vars == <<ref, est, hop, kind, out, pc>>
F(c, n, d) == [c |-> c, w |-> <<n, d>>]
Frames6 == {F(0, 0, 1), F(0, 1, 2), F(1000, 1, 1), F(1000, 1, 2), F(2200, 1, 1), F(2200, 0, 1)}
Frames8 == Frames6 \cup {F(1200, 1, 4), F(2200, 1, 2)}
FramesBin == {F(0, 0, 1), F(0, 1, 1), F(1000, 1, 1), F(1000, 0, 1), F(2200, 1, 1), F(2200, 0, 1)}
Series(n, t0, step) == {[t |-> [k \in 1..n |-> t0 + step * (k - 1)], c |-> [k \in 1..n |-> f[k].c], w |-> [k \in 1..n |-> f[k].w]] : f \in [1..n -> Frame]}
Init == /\ ref \in UNION {Series(n, t0, 2) : n \in 2..NR, t0 \in {0, 2}}
        /\ est \in UNION {Series(m, t0, st) : m \in 2..NE, t0 \in {0, 1}, st \in ESteps}
        /\ hop \in Hops /\ kind \in Kinds
        /\ out = <<>> /\ pc = "in"
Solve == /\ pc = "in" /\ pc' = "out" /\ UNCHANGED <<ref, est, hop, kind>>
         /\ LET x == ToCentVoicingK(ref, est, hop, kind) IN
            out' = [cv |-> x, recall |-> VoicingRecall(x.rv, x.ev), fa |-> VoicingFalseAlarm(x.rv, x.ev),
                    rpa |-> RRaw(x.rv, x.rc, x.ec, 50, FALSE), rca |-> RRaw(x.rv, x.rc, x.ec, 50, TRUE),
                    oa |-> ROverall(x.rv, x.rc, x.ev, x.ec, 50)]
Next == Solve
Spec == Init /\ [][Next]_vars
Sane == pc = "out" => /\ InUnit(out.recall) /\ InUnit(out.fa) /\ InUnit(out.rpa) /\ InUnit(out.rca) /\ InUnit(out.oa)
                      /\ RLeq(out.rpa, out.rca)
                      /\ Len(out.cv.ev) = Len(out.cv.rv) /\ Len(out.cv.ec) = Len(out.cv.rc)
                      /\ \A k \in 1..Len(out.cv.rv) : InUnit(out.cv.rv[k]) /\ InUnit(out.cv.ev[k])
(* a series scored against itself under the same pre-processing gets raw pitch / chroma accuracy 1 whenever a voiced  *)
(* frame survives - EXCEPT in one class that TLC found (thorough configuration, hop finer than the grid): a NON-binary  *)
(* voicing / reward is interpolated linearly ACROSS a transition from a pitchless frame to a pitched one, so the        *)
(* resampled frame in between carries reward > 0 but no pitch, and can never be "correct" (recorded finding, C02).      *)
PitchlessThenPitched(s0) == LET s == FV(PadW(s0)) IN \E k \in 1..(Len(s.t) - 1) : s.c[k] = 0 /\ s.c[k + 1] # 0 /\ s.w[k + 1][1] > 0
QuirkClass == kind = "linear" /\ hop > 0 /\ ~IsBinaryW(FV(PadW(ref)).w) /\ PitchlessThenPitched(ref)
SelfPerfect == pc = "out" /\ ref = est /\ (\E k \in 1..Len(out.cv.rv) : out.cv.rv[k][1] > 0) /\ ~QuirkClass
                 => out.rpa = <<1, 1>> /\ out.rca = <<1, 1>>
Export == pc = "out" => PrintT("ROW" \o ToJson([ref |-> ref, est |-> est, hop |-> hop, kind |-> kind, out |-> out]))
=============================================================================
