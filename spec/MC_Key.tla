------------------------------ MODULE MC_Key ------------------------------
(* The whole key domain: every (reference, estimate) pair of the 17 tonic spellings x 3 modes  *)
(* + X, with the specified score (C04), and - with Transpose - every joint transposition and   *)
(* respelling of the pair, which must leave the score unchanged (C09).                          *)
EXTENDS Key, TLC, Json
CONSTANTS Transpose
VARIABLES r, e, k, out, pc
vars == <<r, e, k, out, pc>>
Names == {[name |-> TonicNames[i], tonic |-> TonicSemi[i], mode |-> m] : i \in 1..17, m \in Modes}
           \cup {[name |-> "x", tonic |-> -1, mode |-> "none"]}
Abs(x) == [tonic |-> x.tonic, mode |-> x.mode]
Init == r \in Names /\ e \in Names /\ k \in (IF Transpose THEN 0..11 ELSE {0}) /\ out = <<>> /\ pc = "in"
(* all spellings of the transposed tonic *)
Respell(x, n) == IF x.tonic < 0 THEN {x}
                 ELSE {[name |-> TonicNames[i], tonic |-> TonicSemi[i], mode |-> x.mode] :
                          i \in {j \in 1..17 : TonicSemi[j] = (x.tonic + n) % 12}}
Solve == /\ pc = "in" /\ pc' = "out" /\ UNCHANGED <<r, e, k>>
         /\ out' = [score |-> WeightedScore(Abs(r), Abs(e)),
                    rs |-> Respell(r, k), es |-> Respell(e, k)]
Next == Solve
Spec == Init /\ [][Next]_vars
InRange == pc = "out" => InUnit(out.score)
SelfPerfect == pc = "out" /\ Abs(r) = Abs(e) => out.score = <<1, 1>>
TransposeInvariant == pc = "out" =>
   \A a \in out.rs : \A b \in out.es : WeightedScore(Abs(a), Abs(b)) = out.score
Export == pc = "out" => PrintT("ROW" \o ToJson([r |-> r, e |-> e, k |-> k, score |-> out.score,
                                                 rs |-> out.rs, es |-> out.es]))
=============================================================================
