------------------------------ MODULE MC_C14 ------------------------------
(* Enumerates the validity catalogue: every (task, valid shape) - expected outcome "ok" on every *)
(* entry point - and every (fault, entry point) - expected outcome the catalogued exception.      *)
(* Invariants are on the catalogue: every fault maps to ValueError or InvalidChordException,      *)
(* never to another class; every task has valid shapes; a fault names at least one entry point.   *)
EXTENDS Validity, TLC, Json
VARIABLES row, pc
vars == <<row, pc>>
Init == /\ pc = "in"
        /\ \/ row \in {[kind |-> "valid", task |-> t, shape |-> s] : t \in Tasks, s \in UNION {ValidShapes(x) : x \in Tasks}}
              /\ row.shape \in ValidShapes(row.task)
           \/ row \in {[kind |-> "fault", task |-> f.task, shape |-> f.fault, fn |-> g, expect |-> f.expect] : f \in Catalogue, g \in UNION {h.fns : h \in Catalogue}}
              /\ \E f \in Catalogue : f.task = row.task /\ f.fault = row.shape /\ row.fn \in f.fns /\ f.expect = row.expect
Step == pc = "in" /\ pc' = "out" /\ UNCHANGED row
Next == Step
Spec == Init /\ [][Next]_vars
CleanRejection == \A f \in Catalogue : f.expect \in {VE, IC} /\ f.fns # {}
EveryTaskHasValid == \A t \in Tasks : ValidShapes(t) # {}
Export == pc = "out" => PrintT("ROW" \o ToJson(row))
=============================================================================
