SPECIFICATION Spec
CONSTANTS Kind = "onset"
          P = 5
          N = 3
          W = {0, 1, 2}
INVARIANT Sane
INVARIANT Export
