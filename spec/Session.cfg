SPECIFICATION Spec
CONSTANTS Fns = {"beat", "onset", "segment", "chord", "melody", "multipitch", "transcription", "transcription_velocity", "tempo", "key", "pattern", "hierarchy", "alignment", "util", "sonify"}
          Inputs = {1}
          Kws = {1, 2}
          MaxLen = 2
INVARIANT Repeatable
INVARIANT HeapStable
INVARIANT Export
