SPECIFICATION Spec
