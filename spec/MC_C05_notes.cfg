SPECIFICATION Spec
CONSTANTS Onsets = {0, 1, 3}
          Durs = {1, 3}
          Pitches = {0, 40}
          N = 2
          OnTols <- OnTolsQ
          Ratios <- RatiosQ
          MinTols <- MinTolsQ
          PitchTol <- PitchTolD
INVARIANT Nested
INVARIANT StrictSub
INVARIANT Export
