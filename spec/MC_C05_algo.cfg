SPECIFICATION Spec
CONSTANTS NL = 3
          NR = 3
INVARIANT Valid
INVARIANT BergeInv
INVARIANT DoneMax
PROPERTY Grows
