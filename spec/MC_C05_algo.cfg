SPECIFICATION Spec
CONSTANTS NL = 3
          NR = 3
          K = 0
          Dens = 0
INVARIANT Valid
INVARIANT BergeInv
INVARIANT DoneMax
PROPERTY Grows
