SPECIFICATION Spec
CONSTANTS Transpose = FALSE
INVARIANT InRange
INVARIANT SelfPerfect
INVARIANT TransposeInvariant
INVARIANT Export
