SPECIFICATION Spec
CONSTANTS NP = 2
INVARIANT InRange
INVARIANT SwapSym
INVARIANT SelfPerfect
INVARIANT Export
