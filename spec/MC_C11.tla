------------------------------ MODULE MC_C11 ------------------------------
(* Every pair (reference label, estimated label) of a structured family x root offsets:       *)
(* the twelve comparison values by specification, and the documented lattice checked by TLC   *)
(* on each pair (C11).  With Transpose = TRUE the model also carries a transposition k and a  *)
(* spelling choice and checks that jointly transposing / respelling changes nothing (C09).    *)
EXTENDS Chord, TLC, Json
CONSTANTS RefFam, EstFam, Offsets, Transpose
VARIABLES ra, ea, k, sp, out, pc
vars == <<ra, ea, k, sp, out, pc>>

Deg(o, a, n) == [omit |-> o, acc |-> a, num |-> n]
Mk(l, a, sh, ds, b) == [kind |-> "chord", letter |-> l, acc |-> a, sh |-> sh, degs |-> ds, bass |-> b]
B(a, n) == <<[acc |-> a, num |-> n]>>
Special == {[kind |-> "N"], [kind |-> "X"]}
ShAll == (Supported \cup {"none"})
EditSet == {Deg(o, a, n) : o \in BOOLEAN, a \in {-1, 0, 1}, n \in {3, 5, 7, 9, 10}}
FamA == Special \cup {Mk("C", 0, sh, <<>>, b) : sh \in ShAll, b \in {<<>>, B(0, 3), B(-1, 7), B(0, 5)}}
FamB(shs) == {Mk("C", 0, sh, <<d>>, <<>>) : sh \in shs, d \in EditSet}
FamBig == FamA \cup FamB({"maj", "min", "7", "maj7", "min7", "paren", "sus4", "dim"})
FamMid == FamA \cup FamB({"maj", "7", "paren"})
FamSmall == Special \cup {Mk("C", 0, sh, <<>>, b) : sh \in {"none", "min", "7", "maj7", "min7", "sus4", "dim", "5", "9", "hdim7", "maj6"},
                                                     b \in {<<>>, B(0, 3), B(-1, 7)}}
             \cup {Mk("C", 0, "maj", <<d>>, <<>>) : d \in {Deg(FALSE, 1, 9), Deg(FALSE, -1, 10), Deg(TRUE, 0, 3), Deg(FALSE, -1, 7)}}
             \cup {Mk("C", 0, sh, <<>>, B(0, 7)) : sh \in {"none", "maj7", "min"}}     \* bass 11 semitones above the root
Fam(n) == CASE n = "big" -> FamBig [] n = "mid" -> FamMid [] n = "small" -> FamSmall

(* all spellings of a pitch class with at most two accidentals *)
Spellings(semi) == {<<l, a>> \in Letters \X (-2..2) : (LetterSemi(l) + a) % 12 = semi}
(* sp = "sharp": fewest accidentals among non-flat spellings; "flat": among non-sharp; "odd": the most remote one *)
Spell(semi, how) ==
  LET S == Spellings(semi)
      cand == CASE how = "sharp" -> {x \in S : x[2] >= 0} [] how = "flat" -> {x \in S : x[2] <= 0} [] OTHER -> S
      key(x) == IF how = "odd" THEN 10 - (IF x[2] < 0 THEN -x[2] ELSE x[2]) ELSE (IF x[2] < 0 THEN -x[2] ELSE x[2])
      best == CHOOSE x \in cand : \A y \in cand : key(x) < key(y) \/ (key(x) = key(y) /\ LetterSemi(x[1]) <= LetterSemi(y[1]))
  IN  best
Trans(ast, n, how) ==
  IF ast.kind # "chord" THEN ast
  ELSE LET s == Spell((LetterSemi(ast.letter) + ast.acc + n) % 12, how) IN
       [ast EXCEPT !.letter = s[1], !.acc = s[2]]

Init == /\ ra \in Fam(RefFam) /\ ea \in Fam(EstFam)
        /\ k \in Offsets
        /\ sp \in (IF Transpose THEN {"sharp", "flat", "odd"} ELSE {"sharp"})
        /\ out = <<>> /\ pc = "in"
(* without Transpose, k is a root offset applied to the ESTIMATE only; with it, both sides move *)
RefAst == IF Transpose THEN Trans(ra, k, sp) ELSE ra
EstAst == Trans(ea, k, sp)
Solve == /\ pc = "in" /\ pc' = "out" /\ UNCHANGED <<ra, ea, k, sp>>
         /\ out' = [cmp |-> Compare(Encode(RefAst, FALSE, FALSE), Encode(EstAst, FALSE, FALSE))]
Next == Solve
Spec == Init /\ [][Next]_vars

R0 == Encode(RefAst, FALSE, FALSE)
E0 == Encode(EstAst, FALSE, FALSE)
V(name) == out.cmp[CHOOSE j \in 1..12 : RuleNames[j] = name]
Implies(a, b) == V(a) = 1 => V(b) = 1
Lattice == pc = "out" =>
  /\ \A j \in 1..12 : out.cmp[j] \in {-1, 0, 1}
  /\ Implies("tetrads_inv", "tetrads") /\ Implies("tetrads", "triads") /\ Implies("triads", "thirds")
  /\ Implies("thirds", "root")
  /\ Implies("thirds_inv", "thirds") /\ Implies("triads_inv", "triads") /\ Implies("majmin_inv", "majmin")
  /\ Implies("sevenths_inv", "sevenths")
  /\ Implies("majmin", "triads") /\ Implies("sevenths", "tetrads")
  /\ (V("tetrads") = 1 => V("mirex") # 0)
IgnoredByReferenceAlone == pc = "out" =>
  LET self == Compare(R0, R0) IN
  /\ \A j \in 1..12 : (out.cmp[j] = -1) <=> (self[j] = -1)
  /\ \A j \in 1..12 : self[j] # 0
(* C09 on the definitions: joint transposition / respelling never changes a comparison *)
TransposeInvariant == pc = "out" /\ Transpose =>
  out.cmp = Compare(Encode(ra, FALSE, FALSE), Encode(ea, FALSE, FALSE))
Export == pc = "out" => PrintT("ROW" \o ToJson([r |-> RefAst, e |-> EstAst, k |-> k, sp |-> sp, r0 |-> ra, e0 |-> ea, cmp |-> out.cmp]))
=============================================================================
