------------------------------- MODULE Pattern -------------------------------
(* Pattern discovery scores (Collins / MIREX "Discovery of Repeated Themes & Sections").        *)
(* A point is <<onset, midi>>; an occurrence is a sequence of points; a pattern a sequence of    *)
(* occurrences (the first is the prototype); an annotation a sequence of patterns.                *)
(* These definitions follow the formulas of the task description as mir_eval documents them; the  *)
(* occurrence score in particular is procedural (relevant index pairs, sub-matrix with            *)
(* repetitions) and is transcribed as such - said so in DESIGN.md.                                 *)
EXTENDS Integers, Sequences, FiniteSets, Rat
PtSet(o) == {o[k] : k \in 1..Len(o)}
Card(o1, o2) == Norm(Cardinality(PtSet(o1) \cap PtSet(o2)), MaxI(Len(o1), Len(o2)))        \* cardinality score
RMaxSet(S) == CHOOSE m \in S : \A x \in S : RLeq(x, m)
RMean(f, n) == RDiv(RSumSeq([k \in 1..n |-> f[k]]), R(n))
(* for a matrix given as an operator M(i, j), i in 1..a, j in 1..b *)
ColMaxMean(M(_, _), a, b) == RMean([j \in 1..b |-> RMaxSet({M(i, j) : i \in 1..a})], b)
RowMaxMean(M(_, _), a, b) == RMean([i \in 1..a |-> RMaxSet({M(i, j) : j \in 1..b})], a)
FPR(p, r) == [f |-> FMeasure(p, r, <<1, 1>>), p |-> p, r |-> r]
Empty(A) == \A i \in 1..Len(A) : \A k \in 1..Len(A[i]) : Len(A[i][k]) = 0
ZERO == [f |-> <<0, 1>>, p |-> <<0, 1>>, r |-> <<0, 1>>]

(* establishment: S(i,j) = best cardinality score between any occurrences of the two patterns *)
Est(ref, est, i, j) == RMaxSet({Card(ref[i][a], est[j][b]) : a \in 1..Len(ref[i]), b \in 1..Len(est[j])})
Establishment(ref, est) ==
  IF Len(ref) = 0 \/ Len(est) = 0 \/ Empty(ref) \/ Empty(est) THEN ZERO
  ELSE LET S(i, j) == Est(ref, est, i, j) IN
       FPR(ColMaxMean(S, Len(ref), Len(est)), RowMaxMean(S, Len(ref), Len(est)))

(* occurrence: over the pattern pairs whose establishment score reaches the threshold *)
OccP(ref, est, i, j) == LET s(a, b) == Card(ref[i][a], est[j][b]) IN ColMaxMean(s, Len(ref[i]), Len(est[j]))
OccR(ref, est, i, j) == LET s(a, b) == Card(ref[i][a], est[j][b]) IN RowMaxMean(s, Len(ref[i]), Len(est[j]))
Relevant(ref, est, th) == {<<i, j>> \in (1..Len(ref)) \X (1..Len(est)) : RLeq(th, Est(ref, est, i, j))}
Occurrence(ref, est, th) ==
  IF Len(ref) = 0 \/ Len(est) = 0 \/ Empty(ref) \/ Empty(est) THEN ZERO
  ELSE LET rel == Relevant(ref, est, th)
           rows == {x[1] : x \in rel}
           cols == {x[2] : x \in rel}
           OP(i, j) == IF <<i, j>> \in rel THEN OccP(ref, est, i, j) ELSE <<0, 1>>
           OR(i, j) == IF <<i, j>> \in rel THEN OccR(ref, est, i, j) ELSE <<0, 1>>
           \* each relevant pair contributes its column (resp. row) once: a mean WITH multiplicity
           prec == RDiv(RSumOver([x \in rel |-> RMaxSet({OP(i, x[2]) : i \in rows})], rel), R(Cardinality(rel)))
           rec  == RDiv(RSumOver([x \in rel |-> RMaxSet({OR(x[1], j) : j \in cols})], rel), R(Cardinality(rel)))
       IN  IF rel = {} THEN ZERO ELSE FPR(prec, rec)

(* three-layer: F1 between occurrences, F2 between patterns, F3 between annotations *)
F1(o1, o2) == LET s == Cardinality(PtSet(o1) \cap PtSet(o2)) IN FMeasure(Norm(s, Len(o1)), Norm(s, Len(o2)), <<1, 1>>)
F2(pr, pe) == LET m(a, b) == F1(pr[a], pe[b]) IN
  FMeasure(ColMaxMean(m, Len(pr), Len(pe)), RowMaxMean(m, Len(pr), Len(pe)), <<1, 1>>)
ThreeLayer(ref, est) ==
  IF Len(ref) = 0 \/ Len(est) = 0 \/ Empty(ref) \/ Empty(est) THEN ZERO
  ELSE LET m(i, j) == F2(ref[i], est[j]) IN FPR(ColMaxMean(m, Len(ref), Len(est)), RowMaxMean(m, Len(ref), Len(est)))
FirstN(A, n) == SubSeq(A, 1, MinI(n, Len(A)))

(* standard: a reference pattern is found when some estimated prototype is an exact translation of *)
(* its prototype (same number of points, point by point)                                            *)
Translation(p, q) == Len(p) = Len(q) /\ \A k \in 1..(Len(p) - 1) :
                        p[k + 1][1] - p[k][1] = q[k + 1][1] - q[k][1] /\ p[k + 1][2] - p[k][2] = q[k + 1][2] - q[k][2]
Standard(ref, est) ==
  IF Len(ref) = 0 \/ Len(est) = 0 \/ Empty(ref) \/ Empty(est) THEN ZERO
  ELSE LET k == Cardinality({i \in 1..Len(ref) : \E j \in 1..Len(est) : Translation(ref[i][1], est[j][1])})
       IN  FPR(Norm(k, Len(est)), Norm(k, Len(ref)))
=============================================================================
