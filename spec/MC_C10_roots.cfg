SPECIFICATION Spec
CONSTANTS Family = "roots"
          Accs <- A5
          DegNums = {1}
          DegAccs <- A0
          BassSet <- BassQ
INVARIANT EncodingSound
INVARIANT StrictOnlyRejects
INVARIANT ParseInverts
INVARIANT Export
