--------------------------- MODULE MC_C05_notes ---------------------------
(* Generator for transcription.match_notes / match_note_onsets / match_note_offsets:        *)
(* every pair of note lists (any order, duplicates allowed) on the lattice, every           *)
(* parameter combination; feasibility graphs by the documented criteria, maximum size by    *)
(* definition.  Time unit = 1/16 s (np.around(.,4) is the identity on it), pitch in cents   *)
(* on a lattice on which no difference equals a pitch tolerance.                            *)
EXTENDS Hits, Matching, TLC, Json
CONSTANTS Onsets, Durs, Pitches, N,
          OnTols,     \* set of rational onset tolerances (in lattice units)
          Ratios,     \* set of offset ratios incl. NONE
          MinTols,    \* set of rational offset_min_tolerance (lattice units)
          PitchTol    \* rational, cents
VARIABLES ref, est, par, out, pc
vars == <<ref, est, par, out, pc>>
Note == [on : Onsets, dur : Durs, p : Pitches]
Init == /\ ref \in SeqsUpTo(Note, N) /\ est \in SeqsUpTo(Note, N)
        /\ par \in [ot : OnTols, ratio : Ratios, mintol : MinTols, strict : BOOLEAN]
        /\ out = <<>> /\ pc = "in"
Solve == /\ pc = "in"
         /\ LET En  == NoteEdges(ref, est, par.ot, PitchTol, par.ratio, par.mintol, par.strict)
                Eon == OnsetEdges(ref, est, par.ot, par.strict)
                Eof == IF par.ratio = NONE THEN {} ELSE OffsetEdges(ref, est, par.ratio, par.mintol, par.strict)
            IN  out' = [en |-> En, mn |-> MaxSize(Len(ref), En),
                        eon |-> Eon, mon |-> MaxSize(Len(ref), Eon),
                        eof |-> Eof, mof |-> MaxSize(Len(ref), Eof)]
         /\ pc' = "out" /\ UNCHANGED <<ref, est, par>>
Next == Solve
\* constant sets that a .cfg cannot spell (tuples): quick (Q) and thorough (T) variants
OnTolsQ == {<<2, 1>>}              OnTolsT == {<<1, 1>>, <<2, 1>>}
RatiosQ == {NONE, <<1, 2>>}        RatiosT == {NONE, <<1, 4>>, <<1, 2>>, <<1, 1>>}
MinTolsQ == {<<1, 1>>}             MinTolsT == {<<1, 2>>, <<1, 1>>}
PitchTolD == <<50, 1>>
Spec == Init /\ [][Next]_vars
(* nested criteria (also C07): full-note pairs are onset pairs; strictness only removes pairs *)
Nested == pc = "out" => out.en \subseteq out.eon /\ out.mn <= out.mon
StrictSub == pc = "out" /\ par.strict =>
   out.en \subseteq NoteEdges(ref, est, par.ot, PitchTol, par.ratio, par.mintol, FALSE)
Export == pc = "out" => PrintT("ROW" \o ToJson([ref |-> ref, est |-> est, par |-> par,
             pt |-> PitchTol, en |-> out.en, mn |-> out.mn, eon |-> out.eon, mon |-> out.mon,
             eof |-> out.eof, mof |-> out.mof]))
=============================================================================
