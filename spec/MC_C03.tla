------------------------------ MODULE MC_C03 ------------------------------
(* Every subset of a task's keyword pool (C03): which entries evaluate() must return, and which *)
(* keywords the function behind each entry must receive.  Checked on the table: a forced value   *)
(* always wins, a user keyword reaches exactly the entries whose function names it, near-miss    *)
(* and unrelated names reach nothing.                                                            *)
EXTENDS Bundle, TLC, Json
CONSTANTS Tasks, MaxSize
VARIABLES task, kw, pc
vars == <<task, kw, pc>>
Init == /\ task \in Tasks /\ pc = "in"
        /\ kw \in {k \in SUBSET Pool(task) : Cardinality(k) <= MaxSize /\ ~({"offset_ratio", "offset_ratio_none"} \subseteq k)}
Step == pc = "in" /\ pc' = "out" /\ UNCHANGED <<task, kw>>
Next == Step
Spec == Init /\ [][Next]_vars
Es == Entries(task)
ForcedWins == \A i \in 1..Len(Es) : Es[i].forced \subseteq Effective(Es[i], kw)
               /\ \A f \in Es[i].forced : \A g \in Effective(Es[i], kw) : g[1] = f[1] => g = f
ReachExactly == \A i \in 1..Len(Es) : \A p \in kw :
   (UserName(p) \in Params(Es[i].fn) /\ UserName(p) \notin ForcedNames(Es[i])) <=> (\E g \in Effective(Es[i], kw) : g[1] = UserName(p) /\ g[2] # "x" /\ g \notin Es[i].forced)
NearMissInert == \A i \in 1..Len(Es) : \A g \in Effective(Es[i], kw) : g[1] \notin NearMiss
KeysDistinct == \A i, j \in 1..Len(Es) : Es[i].key = Es[j].key => i = j
Export == pc = "out" =>
   PrintT("ROW" \o ToJson([task |-> task, kw |-> kw, pre |-> PreFn(task),
        prekw |-> (IF PreFn(task) = "none" THEN {} ELSE kw \cap Params(PreFn(task))),
        entries |-> [i \in 1..Len(Es) |-> [key |-> Es[i].key, fn |-> Es[i].fn, pos |-> Es[i].pos,
                                           present |-> Present(Es[i], kw), eff |-> Effective(Es[i], kw)]]]))
=============================================================================
