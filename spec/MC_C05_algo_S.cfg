INIT InitSample
NEXT Next
CONSTANTS NL = 5
          NR = 5
          K = 150
          Dens = 9
INVARIANT Valid
INVARIANT BergeInv
INVARIANT DoneMax
