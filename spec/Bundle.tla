------------------------------- MODULE Bundle -------------------------------
(* evaluate() as "the documented bundle" (C03).  For each task: the fixed sequence of result   *)
(* keys, and for each key which public function produces it, at which position of that          *)
(* function's result, with which parameters FORCED by evaluate() (the '@0.5'/'@3.0' windows, the *)
(* '.5'/'.75' occurrence thresholds, transitive False/True, offset_ratio=None for '_no_offset'). *)
(* Params(fn) is the documented keyword signature of each function.  A user keyword reaches an   *)
(* entry iff the entry's function names it and evaluate() does not force it.                      *)
EXTENDS Integers, Sequences, FiniteSets

E(key, fn, pos, forced) == [key |-> key, fn |-> fn, pos |-> pos, forced |-> forced, cond |-> "always"]
EC(key, fn, pos, forced, cond) == [key |-> key, fn |-> fn, pos |-> pos, forced |-> forced, cond |-> cond]
NoF == {}

Params(fn) ==
  CASE fn = "beat.trim_beats" -> {"min_beat_time"}
    [] fn = "beat.f_measure" -> {"f_measure_threshold"}
    [] fn = "beat.cemgil" -> {"cemgil_sigma"}
    [] fn = "beat.goto" -> {"goto_threshold", "goto_mu", "goto_sigma"}
    [] fn = "beat.p_score" -> {"p_score_threshold"}
    [] fn = "beat.continuity" -> {"continuity_phase_threshold", "continuity_period_threshold"}
    [] fn = "beat.information_gain" -> {"bins"}
    [] fn = "onset.f_measure" -> {"window"}
    [] fn = "segment.detection" -> {"window", "beta", "trim"}
    [] fn = "segment.deviation" -> {"trim"}
    [] fn = "segment.pairwise" -> {"frame_size", "beta"}
    [] fn = "segment.rand_index" -> {"frame_size", "beta"}
    [] fn = "segment.ari" -> {"frame_size"}
    [] fn = "segment.mutual_information" -> {"frame_size"}
    [] fn = "segment.nce" -> {"frame_size", "beta", "marginal"}
    [] fn = "segment.vmeasure" -> {"frame_size", "beta"}
    [] fn = "melody.to_cent_voicing" -> {"base_frequency", "hop", "kind"}
    [] fn = "melody.voicing_recall" -> {}
    [] fn = "melody.voicing_false_alarm" -> {}
    [] fn = "melody.raw_pitch_accuracy" -> {"cent_tolerance"}
    [] fn = "melody.raw_chroma_accuracy" -> {"cent_tolerance"}
    [] fn = "melody.overall_accuracy" -> {"cent_tolerance"}
    [] fn = "multipitch.metrics" -> {"window"}
    [] fn = "transcription.precision_recall_f1_overlap" ->
         {"onset_tolerance", "pitch_tolerance", "offset_ratio", "offset_min_tolerance", "strict", "beta"}
    [] fn = "transcription.onset_precision_recall_f1" -> {"onset_tolerance", "strict", "beta"}
    [] fn = "transcription.offset_precision_recall_f1" -> {"offset_ratio", "offset_min_tolerance", "strict", "beta"}
    [] fn = "transcription_velocity.precision_recall_f1_overlap" ->
         {"onset_tolerance", "pitch_tolerance", "offset_ratio", "offset_min_tolerance", "strict", "velocity_tolerance", "beta"}
    [] fn = "tempo.detection" -> {"tol"}
    [] fn = "key.weighted_score" -> {}
    [] fn = "pattern.standard_FPR" -> {"tol"}
    [] fn = "pattern.establishment_FPR" -> {"similarity_metric"}
    [] fn = "pattern.occurrence_FPR" -> {"thres", "similarity_metric"}
    [] fn = "pattern.three_layer_FPR" -> {}
    [] fn = "pattern.first_n_three_layer_P" -> {"n"}
    [] fn = "pattern.first_n_target_proportion_R" -> {"n"}
    [] fn = "hierarchy.tmeasure" -> {"transitive", "window", "frame_size", "beta"}
    [] fn = "hierarchy.lmeasure" -> {"frame_size", "beta"}
    [] fn = "alignment.percentage_correct" -> {"window"}
    [] fn = "alignment.absolute_error" -> {}
    [] fn = "alignment.percentage_correct_segments" -> {"duration"}
    [] fn = "alignment.karaoke_perceptual_metric" -> {}
    [] fn = "chord.rule" -> {}
    [] fn = "chord.seg" -> {}

Multi(prefix, keys, fn, forced) == [i \in 1..Len(keys) |-> E(keys[i], fn, i, forced)]
ChordRules == <<"thirds", "thirds_inv", "triads", "triads_inv", "tetrads", "tetrads_inv", "root", "mirex", "majmin",
                "majmin_inv", "sevenths", "sevenths_inv">>
Entries(task) ==
  CASE task = "beat" ->
         <<E("F-measure", "beat.f_measure", 1, NoF), E("Cemgil", "beat.cemgil", 1, NoF),
           E("Cemgil Best Metric Level", "beat.cemgil", 2, NoF), E("Goto", "beat.goto", 1, NoF),
           E("P-score", "beat.p_score", 1, NoF),
           E("Correct Metric Level Continuous", "beat.continuity", 1, NoF), E("Correct Metric Level Total", "beat.continuity", 2, NoF),
           E("Any Metric Level Continuous", "beat.continuity", 3, NoF), E("Any Metric Level Total", "beat.continuity", 4, NoF),
           E("Information gain", "beat.information_gain", 1, NoF)>>
    [] task = "onset" -> Multi("", <<"F-measure", "Precision", "Recall">>, "onset.f_measure", NoF)
    [] task = "segment" ->
         Multi("", <<"Precision@0.5", "Recall@0.5", "F-measure@0.5">>, "segment.detection", {<<"window", "0.5">>})
         \o Multi("", <<"Precision@3.0", "Recall@3.0", "F-measure@3.0">>, "segment.detection", {<<"window", "3.0">>})
         \o Multi("", <<"Ref-to-est deviation", "Est-to-ref deviation">>, "segment.deviation", NoF)
         \o Multi("", <<"Pairwise Precision", "Pairwise Recall", "Pairwise F-measure">>, "segment.pairwise", NoF)
         \o <<E("Rand Index", "segment.rand_index", 1, NoF), E("Adjusted Rand Index", "segment.ari", 1, NoF)>>
         \o Multi("", <<"Mutual Information", "Adjusted Mutual Information", "Normalized Mutual Information">>, "segment.mutual_information", NoF)
         \o Multi("", <<"NCE Over", "NCE Under", "NCE F-measure">>, "segment.nce", NoF)
         \o Multi("", <<"V Precision", "V Recall", "V-measure">>, "segment.vmeasure", NoF)
    [] task = "chord" ->
         [i \in 1..12 |-> E(ChordRules[i], "chord.rule", i, NoF)]
         \o <<E("underseg", "chord.seg", 1, NoF), E("overseg", "chord.seg", 2, NoF), E("seg", "chord.seg", 3, NoF)>>
    [] task = "melody" ->
         <<E("Voicing Recall", "melody.voicing_recall", 1, NoF), E("Voicing False Alarm", "melody.voicing_false_alarm", 1, NoF),
           E("Raw Pitch Accuracy", "melody.raw_pitch_accuracy", 1, NoF), E("Raw Chroma Accuracy", "melody.raw_chroma_accuracy", 1, NoF),
           E("Overall Accuracy", "melody.overall_accuracy", 1, NoF)>>
    [] task = "multipitch" ->
         Multi("", <<"Precision", "Recall", "Accuracy", "Substitution Error", "Miss Error", "False Alarm Error", "Total Error",
                     "Chroma Precision", "Chroma Recall", "Chroma Accuracy", "Chroma Substitution Error", "Chroma Miss Error",
                     "Chroma False Alarm Error", "Chroma Total Error">>, "multipitch.metrics", NoF)
    [] task = "transcription" ->
         [i \in 1..4 |-> EC(<<"Precision", "Recall", "F-measure", "Average_Overlap_Ratio">>[i],
                            "transcription.precision_recall_f1_overlap", i, NoF, "offset_ratio_not_none")]
         \o Multi("", <<"Precision_no_offset", "Recall_no_offset", "F-measure_no_offset", "Average_Overlap_Ratio_no_offset">>,
                  "transcription.precision_recall_f1_overlap", {<<"offset_ratio", "None">>})
         \o Multi("", <<"Onset_Precision", "Onset_Recall", "Onset_F-measure">>, "transcription.onset_precision_recall_f1", NoF)
         \o [i \in 1..3 |-> EC(<<"Offset_Precision", "Offset_Recall", "Offset_F-measure">>[i],
                               "transcription.offset_precision_recall_f1", i, NoF, "offset_ratio_not_none")]
    [] task = "transcription_velocity" ->
         [i \in 1..4 |-> EC(<<"Precision", "Recall", "F-measure", "Average_Overlap_Ratio">>[i],
                            "transcription_velocity.precision_recall_f1_overlap", i, NoF, "offset_ratio_not_none")]
         \o Multi("", <<"Precision_no_offset", "Recall_no_offset", "F-measure_no_offset", "Average_Overlap_Ratio_no_offset">>,
                  "transcription_velocity.precision_recall_f1_overlap", {<<"offset_ratio", "None">>})
    [] task = "tempo" -> Multi("", <<"P-score", "One-correct", "Both-correct">>, "tempo.detection", NoF)
    [] task = "key" -> <<E("Weighted Score", "key.weighted_score", 1, NoF)>>
    [] task = "pattern" ->
         Multi("", <<"F", "P", "R">>, "pattern.standard_FPR", NoF)
         \o Multi("", <<"F_est", "P_est", "R_est">>, "pattern.establishment_FPR", NoF)
         \o Multi("", <<"F_occ.5", "P_occ.5", "R_occ.5">>, "pattern.occurrence_FPR", {<<"thres", "0.5">>})
         \o Multi("", <<"F_occ.75", "P_occ.75", "R_occ.75">>, "pattern.occurrence_FPR", {<<"thres", "0.75">>})
         \o Multi("", <<"F_3", "P_3", "R_3">>, "pattern.three_layer_FPR", NoF)
         \o <<E("FFP", "pattern.first_n_three_layer_P", 1, NoF), E("FFTP_est", "pattern.first_n_target_proportion_R", 1, NoF)>>
    [] task = "hierarchy" ->
         Multi("", <<"T-Precision reduced", "T-Recall reduced", "T-Measure reduced">>, "hierarchy.tmeasure", {<<"transitive", "False">>})
         \o Multi("", <<"T-Precision full", "T-Recall full", "T-Measure full">>, "hierarchy.tmeasure", {<<"transitive", "True">>})
         \o Multi("", <<"L-Precision", "L-Recall", "L-Measure">>, "hierarchy.lmeasure", NoF)
    [] task = "alignment" ->
         <<E("pc", "alignment.percentage_correct", 1, NoF), E("mae", "alignment.absolute_error", 1, NoF),
           E("aae", "alignment.absolute_error", 2, NoF), E("pcs", "alignment.percentage_correct_segments", 1, NoF),
           E("perceptual", "alignment.karaoke_perceptual_metric", 1, NoF)>>
PreFn(task) == CASE task = "beat" -> "beat.trim_beats" [] task = "melody" -> "melody.to_cent_voicing" [] OTHER -> "none"

(* keyword pool of a task: every parameter of every function it bundles, plus names that must   *)
(* have no effect: an unrelated name and near-miss spellings of the forced parameters            *)
NearMiss == {"bogus", "thresh", "windows", "offset_ration", "transitiv", "frame_sizes", "tolerance"}
TaskFns(task) == {Entries(task)[i].fn : i \in 1..Len(Entries(task))} \cup (IF PreFn(task) = "none" THEN {} ELSE {PreFn(task)})
Pool(task) == UNION {Params(f) : f \in TaskFns(task)} \cup NearMiss
                \cup (IF "offset_ratio" \in UNION {Params(f) : f \in TaskFns(task)} THEN {"offset_ratio_none"} ELSE {})
ForcedNames(e) == {f[1] : f \in e.forced}
(* what the function behind an entry must receive: <<name, "user">> or <<name, forced value>>    *)
UserName(p) == IF p = "offset_ratio_none" THEN "offset_ratio" ELSE p
Effective(e, kw) ==
  e.forced \cup {<<UserName(p), IF p = "offset_ratio_none" THEN "None" ELSE "user">> :
                   p \in {q \in kw : UserName(q) \in Params(e.fn) /\ UserName(q) \notin ForcedNames(e)}}
Present(e, kw) == e.cond = "always" \/ "offset_ratio_none" \notin kw
=============================================================================
