------------------------------ MODULE MC_C18 ------------------------------
(* Every pair of small ragged (time, frequency-list) inputs: identical time bases or an offset   *)
(* estimate time base (resampled: nearest frame, empty outside the estimate's range), windows,    *)
(* raw and chroma.  Invariants (C18): E_tot = E_sub + E_miss + E_fa, every error >= 0, accuracy   *)
(* <= min(precision, recall), per frame TP <= min(#ref, #est) and chroma TP >= raw TP.            *)
EXTENDS Multipitch, TLC, Json
CONSTANTS Pitches, NF, NP, W, Modes, Origins
VARIABLES rfr, efr, w, mode, org, out, pc
vars == <<rfr, efr, w, mode, org, out, pc>>
Frame == SortedSeqs(Pitches, NP)
Init == /\ rfr \in UNION {[1..k -> Frame] : k \in 1..NF} /\ efr \in UNION {[1..k -> Frame] : k \in 1..NF}
        /\ w \in W /\ mode \in Modes /\ (mode = "same" => Len(efr) = Len(rfr))
        /\ org \in Origins /\ (mode = "same" => org = 0)      \* both time bases start at org (far from 0: closeness of time bases is absolute)
        /\ out = <<>> /\ pc = "in"
RTimes == [i \in 1..Len(rfr) |-> org + 4 * (i - 1)]
ETimes == IF mode = "same" THEN RTimes ELSE [i \in 1..Len(efr) |-> org + 4 * (i - 1) + (IF mode = "late" THEN 1 ELSE 3)]
EAligned == IF mode = "same" THEN efr ELSE Resample(RTimes, ETimes, efr)
Solve == /\ pc = "in" /\ pc' = "out" /\ UNCHANGED <<rfr, efr, w, mode, org>>
         /\ out' = [rt |-> RTimes, et |-> ETimes, aligned |-> EAligned,
                    raw |-> Scores(rfr, EAligned, w, FALSE), chroma |-> Scores(rfr, EAligned, w, TRUE)]
Next == Solve
Spec == Init /\ [][Next]_vars
Accounting(s) ==
  /\ s.etot = RAdd(s.esub, RAdd(s.emiss, s.efa))
  /\ RLeq(<<0, 1>>, s.esub) /\ RLeq(<<0, 1>>, s.emiss) /\ RLeq(<<0, 1>>, s.efa) /\ RLeq(<<0, 1>>, s.etot)
  /\ RLeq(s.acc, s.p) /\ RLeq(s.acc, s.r)
  /\ InUnit(s.p) /\ InUnit(s.r) /\ InUnit(s.acc)
Identities == pc = "out" =>
  /\ Accounting(out.raw) /\ Accounting(out.chroma)
  /\ \A i \in 1..Len(rfr) : /\ out.raw.tp[i] <= MinI(Len(rfr[i]), Len(out.aligned[i]))
                            /\ out.chroma.tp[i] >= out.raw.tp[i]
                            /\ out.chroma.tp[i] <= MinI(Len(rfr[i]), Len(out.aligned[i]))
NoTies == pc = "out" /\ mode # "same" => NoTie(RTimes, ETimes)
Export == pc = "out" => PrintT("ROW" \o ToJson([rfr |-> rfr, efr |-> efr, w |-> w, mode |-> mode, org |-> org, out |-> out]))
=============================================================================
