SPECIFICATION Spec
CONSTANTS Kind = "notes"
          P = 0
          N = 2
          W = {0}
INVARIANT Sane
INVARIANT Export
