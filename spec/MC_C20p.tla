------------------------------ MODULE MC_C20p ------------------------------
(* Every pattern file of up to NL lines over {pattern header, occurrence header, point}: the    *)
(* structure returned by the line machine equals the definitional grouping: two points are in     *)
(* the same occurrence iff only points lie between them, in the same pattern iff no pattern        *)
(* header lies between them; order is file order; nothing is lost.                                  *)
EXTENDS IO, TLC, Json
CONSTANTS NL
VARIABLES file, out, pc
vars == <<file, out, pc>>
Init == file \in UNION {[1..k -> {"pattern", "occurrence", "point"}] : k \in 0..NL} /\ out = <<>> /\ pc = "in"
Solve == pc = "in" /\ pc' = "out" /\ out' = LoadPatterns(file) /\ UNCHANGED file
Next == Solve
Spec == Init /\ [][Next]_vars
Where(p) == CHOOSE x \in {<<i, j>> : i \in 1..Len(out), j \in 1..NL} :
              x[2] <= Len(out[x[1]]) /\ \E k \in 1..Len(out[x[1]][x[2]]) : out[x[1]][x[2]][k] = p
Grouping == pc = "out" =>
  /\ \A p \in Points(file) : \E i \in 1..Len(out) : \E j \in 1..Len(out[i]) : \E k \in 1..Len(out[i][j]) : out[i][j][k] = p
  /\ \A i \in 1..Len(out) : Len(out[i]) > 0 /\ \A j \in 1..Len(out[i]) : Len(out[i][j]) > 0
  /\ \A p, q \in Points(file) : /\ (Where(p) = Where(q)) <=> SameOcc(file, p, q)
                                /\ (Where(p)[1] = Where(q)[1]) <=> SamePat(file, p, q)
Export == pc = "out" => PrintT("ROW" \o ToJson([file |-> file, out |-> out]))
=============================================================================
