SPECIFICATION Spec
CONSTANTS Kind = "samples"
          P = 8
          NI = 3
          NP = 0
          Labels = {"a", "b"}
INVARIANT SpecAgrees
INVARIANT Export
