SPECIFICATION Spec
CONSTANTS PMax = 12
          NR = 6
          NE = 5
INVARIANT SelfPerfect
INVARIANT ContNested
INVARIANT Export
