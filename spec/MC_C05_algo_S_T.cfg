INIT InitSample
NEXT Next
CONSTANTS NL = 6
          NR = 6
          K = 600
          Dens = 11
INVARIANT Valid
INVARIANT BergeInv
INVARIANT DoneMax
