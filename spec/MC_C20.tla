------------------------------ MODULE MC_C20 ------------------------------
(* Every file of up to NL lines over the line kinds x every loader schema: the outcome of the    *)
(* per-line machine (rows in file order, or the number of the first offending row).  Invariants: *)
(* rows are in file order and are exactly the row-producing lines before the first error; an      *)
(* error names a line whose effect is "error" and no earlier line has that effect.                *)
EXTENDS IO, TLC, Json
CONSTANTS NL, Loaders
VARIABLES loader, file, out, pc
vars == <<loader, file, out, pc>>
Init == /\ loader \in Loaders /\ file \in UNION {[1..k -> LineKinds] : k \in 0..NL}
        /\ out = <<>> /\ pc = "in"
Solve == pc = "in" /\ pc' = "out" /\ out' = Load(loader, file) /\ UNCHANGED <<loader, file>>
Next == Solve
Spec == Init /\ [][Next]_vars
Sound == pc = "out" =>
  /\ \A i \in 1..(Len(out.rows) - 1) : out.rows[i] < out.rows[i + 1]
  /\ (out.status = "error" => /\ Effect(file[out.errrow], Schemas[loader]) = "error"
                              /\ \A j \in 1..(out.errrow - 1) : Effect(file[j], Schemas[loader]) # "error"
                              /\ \A i \in 1..Len(out.rows) : out.rows[i] < out.errrow)
  /\ (out.status = "ok" => {out.rows[i] : i \in 1..Len(out.rows)} = {j \in 1..Len(file) : Effect(file[j], Schemas[loader]) = "row"})
Export == pc = "out" => PrintT("ROW" \o ToJson([loader |-> loader, file |-> file, out |-> out]))
=============================================================================
