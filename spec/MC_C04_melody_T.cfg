SPECIFICATION Spec
CONSTANTS Kind = "melody"
          P = 0
          N = 3
          W = {0}
INVARIANT Sane
INVARIANT Export
