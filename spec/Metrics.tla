------------------------------- MODULE Metrics -------------------------------
(* Published definitions of the event-, frame- and note-based scores (C04), on integer lattices *)
(* with exact rational results.  Hit-based scores come from the size of a maximum one-to-one     *)
(* matching (Matching.tla) under the tolerance predicates of Hits.tla.                            *)
EXTENDS Hits, Matching, Intervals

PRF(hits, nref, nest, b2) ==
  IF nref = 0 \/ nest = 0 THEN [p |-> <<0, 1>>, r |-> <<0, 1>>, f |-> <<0, 1>>]
  ELSE LET P == Norm(hits, nest)  Rc == Norm(hits, nref) IN [p |-> P, r |-> Rc, f |-> FMeasure(P, Rc, b2)]

(* ---- onsets / beats: |ref - est| <= w, maximum matching ------------------------------------ *)
EventPRF(ref, est, w, b2) == PRF(MaxSize(Len(ref), EventEdges(ref, est, w)), Len(ref), Len(est), b2)

(* ---- boundary detection and deviation ------------------------------------------------------- *)
Boundaries(ivs, trim) ==
  LET b == SortSet(Bounds(ivs)) IN
  IF trim THEN (IF Len(b) <= 2 THEN <<>> ELSE SubSeq(b, 2, Len(b) - 1)) ELSE b
DetectionPRF(rivs, eivs, w, trim, b2) == EventPRF(Boundaries(rivs, trim), Boundaries(eivs, trim), w, b2)
NearestDist(t, s) == MinSet({AbsI(t - s[k]) : k \in 1..Len(s)})
(* median of a finite sequence of integers, as a rational *)
RECURSIVE SortSeqInts(_)
SortSeqInts(s) == IF s = <<>> THEN <<>> ELSE
  LET m == MinSet({s[k] : k \in 1..Len(s)})
      i == CHOOSE k \in 1..Len(s) : s[k] = m
  IN  <<m>> \o SortSeqInts(SubSeq(s, 1, i - 1) \o SubSeq(s, i + 1, Len(s)))
Median(s) == LET t == SortSeqInts(s) n == Len(s) IN
  IF n % 2 = 1 THEN <<t[(n + 1) \div 2], 1>> ELSE Norm(t[n \div 2] + t[n \div 2 + 1], 2)
(* (reference-to-estimate, estimate-to-reference) median distances to the nearest boundary *)
Deviation(rb, eb) == <<Median([k \in 1..Len(rb) |-> NearestDist(rb[k], eb)]), Median([k \in 1..Len(eb) |-> NearestDist(eb[k], rb)])>>

(* ---- notes ----------------------------------------------------------------------------------- *)
NotePRF(ref, est, ot, pt, ratio, mintol, strict, b2) ==
  PRF(MaxSize(Len(ref), NoteEdges(ref, est, ot, pt, ratio, mintol, strict)), Len(ref), Len(est), b2)
OnsetPRF(ref, est, ot, strict, b2) == PRF(MaxSize(Len(ref), OnsetEdges(ref, est, ot, strict)), Len(ref), Len(est), b2)
OffsetPRF(ref, est, ratio, mintol, strict, b2) ==
  PRF(MaxSize(Len(ref), OffsetEdges(ref, est, ratio, mintol, strict)), Len(ref), Len(est), b2)

(* average overlap ratio of a GIVEN one-to-one pairing: mean over the pairs of                       *)
(* (min(offsets) - max(onsets)) / (max(offsets) - min(onsets)); 0 for an empty pairing               *)
OverlapRatio(r, e) == Norm(MinI(r.on + r.dur, e.on + e.dur) - MaxI(r.on, e.on), MaxI(r.on + r.dur, e.on + e.dur) - MinI(r.on, e.on))
AOR(ref, est, M) == IF M = {} THEN <<0, 1>>
                    ELSE RDiv(RSumOver([p \in M |-> OverlapRatio(ref[p[1]], est[p[2]])], M), R(Cardinality(M)))

(* ---- tempo (McKinney et al.): a reference tempo is hit when some estimate is within tol * ref - *)
TempoHit(rt, est, tol) == rt > 0 /\ \E j \in 1..2 : AbsI(rt - est[j]) * tol[2] <= tol[1] * rt
TempoScores(ref, wgt, est, tol) ==
  LET h1 == TempoHit(ref[1], est, tol)  h2 == TempoHit(ref[2], est, tol)
      b(x) == IF x THEN 1 ELSE 0
  IN  [p |-> RAdd(RMul(wgt, R(b(h1))), RMul(RSub(R(1), wgt), R(b(h2)))), one |-> h1 \/ h2, both |-> h1 /\ h2]

(* ---- alignment -------------------------------------------------------------------------------- *)
AbsErrs(ref, est) == [k \in 1..Len(ref) |-> AbsI(ref[k] - est[k])]
AlignMedian(ref, est) == Median(AbsErrs(ref, est))
AlignMean(ref, est) == Norm(SumSeq(AbsErrs(ref, est)), Len(ref))
PercentCorrect(ref, est, w) == Norm(Cardinality({k \in 1..Len(ref) : AbsI(ref[k] - est[k]) <= w}), Len(ref))
Overlap(a1, a2, b1, b2) == MaxI(0, MinI(a2, b2) - MaxI(a1, b1))
(* percentage of correct segments: MIREX variant (segments between consecutive timestamps) or,    *)
(* with a total duration, including the leading and trailing segments                              *)
PCS(ref, est, dur) ==
  IF dur = 0 THEN
    LET n == Len(ref) - 1 IN
    Norm(SumSeq([k \in 1..n |-> Overlap(ref[k], ref[k + 1], est[k], est[k + 1])]), ref[Len(ref)] - ref[1])
  ELSE
    LET rs == <<0>> \o ref  re == ref \o <<dur>>  es == <<0>> \o est  ee == est \o <<dur>> IN
    Norm(SumSeq([k \in 1..Len(rs) |-> Overlap(rs[k], re[k], es[k], ee[k])]), dur)

(* ---- melody (Salamon et al.; continuous voicing per Bittner & Bosch) -------------------------- *)
(* rv, ev: voicing sequences of rationals in [0,1]; rc, ec: cents (0 = no pitch)                    *)
Ind(b) == IF b THEN 1 ELSE 0
RSumSeqOf(f, n) == RSumSeq([k \in 1..n |-> f[k]])
VoicingRecall(rv, ev) ==
  LET n == Len(rv) voiced == {k \in 1..n : RLt(<<0, 1>>, rv[k])} IN
  IF n = 0 THEN <<0, 1>> ELSE IF voiced = {} THEN <<1, 1>>
  ELSE RDiv(RSumSeq([k \in 1..n |-> IF k \in voiced THEN ev[k] ELSE <<0, 1>>]), R(Cardinality(voiced)))
VoicingFalseAlarm(rv, ev) ==
  LET n == Len(rv) unv == {k \in 1..n : rv[k][1] = 0} IN
  IF n = 0 \/ unv = {} THEN <<0, 1>>
  ELSE RDiv(RSumSeq([k \in 1..n |-> IF k \in unv THEN ev[k] ELSE <<0, 1>>]), R(Cardinality(unv)))
ChromaDiff(d) == AbsI(d - 1200 * ((2 * d + 1200) \div 2400))          \* distance to the nearest multiple of an octave
PitchOKc(rc, ec, k, tol, chroma) ==
  rc[k] # 0 /\ ec[k] # 0 /\ (IF chroma THEN ChromaDiff(AbsI(rc[k] - ec[k])) < tol ELSE AbsI(rc[k] - ec[k]) < tol)
RawAccuracy(rv, rc, ec, tol, chroma) ==
  LET n == Len(rv) tot == RSumSeq(rv) IN
  IF n = 0 \/ tot[1] = 0 THEN <<0, 1>>
  ELSE RDiv(RSumSeq([k \in 1..n |-> IF PitchOKc(rc, ec, k, tol, chroma) THEN rv[k] ELSE <<0, 1>>]), tot)
OverallAccuracy(rv, rc, ev, ec, tol) ==
  LET n == Len(rv) tot == RSumSeq(rv)
      nvoiced == Cardinality({k \in 1..n : RLt(<<0, 1>>, rv[k])})
      ratio == IF tot[1] = 0 THEN <<0, 1>> ELSE RDiv(R(nvoiced), tot)
      hit == RSumSeq([k \in 1..n |-> IF PitchOKc(rc, ec, k, tol, FALSE) THEN RMul(rv[k], ev[k]) ELSE <<0, 1>>])
      rej == RSumSeq([k \in 1..n |-> IF rv[k][1] = 0 THEN RSub(R(1), ev[k]) ELSE <<0, 1>>])
  IN  IF n = 0 THEN <<0, 1>> ELSE RDiv(RAdd(RMul(ratio, hit), rej), R(n))
=============================================================================
