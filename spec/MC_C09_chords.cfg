SPECIFICATION Spec
CONSTANTS RefFam = "small"
          EstFam = "small"
          Offsets = {0, 1, 2, 3, 4, 5, 6, 7, 8, 9, 10, 11}
          Transpose = TRUE
INVARIANT Lattice
INVARIANT IgnoredByReferenceAlone
INVARIANT TransposeInvariant
INVARIANT Export
