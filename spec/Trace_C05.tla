---------------------------- MODULE Trace_C05 ----------------------------
(* Validation of matchings RECORDED from the real code (util._bipartite_match, util.match_   *)
(* events, transcription.match_notes* and the calls they make inside the metric functions):  *)
(* one TLC state per recorded event, total verdicts, the failing clause is named.            *)
(*   kind "graph":  left/right vertex counts, edge list, returned matching                   *)
(*   kind "events": lattice times of both sides and the window; the feasibility graph is     *)
(*                  recomputed here from the documented predicate                            *)
(*   kind "chroma": same with the circular distance                                          *)
(*   kind "notes":  note lists + parameters, graph recomputed from the documented criteria   *)
(*   kind "velocity": the note matching obtained inside transcription_velocity.match_notes, the  *)
(*                  velocities and the tolerance; the returned pairs by Velocity!VelVerdict    *)
(* The certificate (Berge) is checked instead of brute force, so 10-40 items per side work.  *)
EXTENDS Hits, Matching, Velocity, TLC, Json, IOUtils
TraceLog == JsonDeserialize(IOEnv.TRACE_FILE)
VARIABLES i, rejects
vars == <<i, rejects>>
SeqToSetOfPairs(s) == {<<s[k][1], s[k][2]>> : k \in 1..Len(s)}
Rt(x) == <<x[1], x[2]>>
EdgesOf(ev) ==
  IF ev.kind = "velocity" THEN {}
  ELSE IF ev.kind \in {"graph", "algo"} THEN SeqToSetOfPairs(ev.e)
  ELSE IF ev.kind = "events" THEN EventEdges(ev.ref, ev.est, ev.w)
  ELSE IF ev.kind = "chroma" THEN ModEdges(ev.ref, ev.est, ev.w, ev.modulus)
  ELSE IF ev.kind = "notes" THEN NoteEdges(ev.ref, ev.est, Rt(ev.ot), Rt(ev.pt), Rt(ev.ratio), Rt(ev.mintol), ev.strict)
  ELSE IF ev.kind = "onsets" THEN OnsetEdges(ev.ref, ev.est, Rt(ev.ot), ev.strict)
  ELSE OffsetEdges(ev.ref, ev.est, Rt(ev.ratio), Rt(ev.mintol), ev.strict)
(* kind "algo": the snapshots of the matching taken between augmentations are a behaviour of the machine of   *)
(* MC_C05_algo: the first is a MAXIMAL matching (Greedy), every later one keeps all matched vertices matched     *)
(* and is at least as large (Phase), the returned matching covers the last snapshot and admits no augmenting     *)
(* path (Finish).  No snapshots = nothing to check here.                                                          *)
Snap(ev, k) == SeqToSetOfPairs(ev.snaps[k])
Covers(A, B) == LeftOf(A) \subseteq LeftOf(B) /\ RightOf(A) \subseteq RightOf(B)
AlgoVerdict(ev, E) ==
  IF Len(ev.snaps) = 0 THEN "ok"
  ELSE IF \E k \in 1..Len(ev.snaps) : ~IsMatching(Snap(ev, k), E) THEN "phase-state-not-a-matching"
  ELSE IF ~IsMaximal(Snap(ev, 1), E) THEN "greedy-state-not-maximal"
  ELSE IF \E k \in 1..(Len(ev.snaps) - 1) :
            ~Covers(Snap(ev, k), Snap(ev, k + 1)) \/ Cardinality(Snap(ev, k + 1)) < Cardinality(Snap(ev, k)) THEN "phase-step-loses-a-vertex"
  ELSE IF ~Covers(Snap(ev, Len(ev.snaps)), SeqToSetOfPairs(ev.m)) THEN "result-loses-a-vertex"
  ELSE "ok"
Verdict(ev) ==
  LET E == EdgesOf(ev)
      M == SeqToSetOfPairs(ev.m)
      v == MatchVerdict(M, E, ev.nl, ev.nr)
  IN  IF ev.kind = "velocity" THEN VelVerdict(ev.inner, ev.m, ev.rv, ev.evl, Rt(ev.tol), ev.u)
      ELSE IF ev.kind = "algo" /\ AlgoVerdict(ev, E) # "ok" THEN AlgoVerdict(ev, E)
      ELSE IF Cardinality(M) # Len(ev.m) THEN "duplicate-pair"
      ELSE IF v # "ok" THEN v
      ELSE IF ev.count # Cardinality(M) THEN "count-differs"
      ELSE "ok"
Init == i = 1 /\ rejects = 0
Next == /\ i <= Len(TraceLog)
        /\ LET v == Verdict(TraceLog[i]) IN
             /\ (v # "ok" => PrintT("REJECT" \o ToJson([tid |-> TraceLog[i].tid, clause |-> v])))
             /\ rejects' = rejects + (IF v = "ok" THEN 0 ELSE 1)
        /\ i' = i + 1
Spec == Init /\ [][Next]_vars
AllConsumed == /\ PrintT("DONE" \o ToJson([n |-> Len(TraceLog), consumed |-> TLCGet("stats").diameter - 1]))
               /\ TLCGet("stats").diameter - 1 = Len(TraceLog)
=============================================================================
