------------------------------ MODULE MC_C19 ------------------------------
(* The framewise control skeleton as a loop machine: Start computes the number of windows, each  *)
(* Window action handles window k (NaN iff a source is silent in it), Finish returns.  Checked for *)
(* every signal length / window / hop and every silence map of two references and two estimates:   *)
(* all windows lie inside the signal, the next window would not fit, every window is handled        *)
(* exactly once in order, NaN flags are per window and identical across metrics.                    *)
EXTENDS Sep, TLC, Json
CONSTANTS Ls, Windows, Hops
VARIABLES L, window, hop, refs, ests, k, nan, pc
vars == <<L, window, hop, refs, ests, k, nan, pc>>
Maps(n) == {[t \in 1..n |-> IF a <= t /\ t < b THEN 0 ELSE 1] : a \in 1..(n + 1), b \in 1..(n + 1)}
NonSilent(m, n) == \E t \in 1..n : m[t] = 1
Init == /\ L \in Ls /\ window \in Windows /\ hop \in Hops
        /\ refs \in {<<a, b>> : a \in {m \in Maps(L) : NonSilent(m, L)}, b \in {[t \in 1..L |-> 1]}}
        /\ ests \in {<<a, b>> : a \in {[t \in 1..L |-> 1]}, b \in {m \in Maps(L) : NonSilent(m, L)}}
        /\ k = 0 /\ nan = <<>> /\ pc = "start"
Start == /\ pc = "start" /\ pc' = (IF Fallback(L, window, hop) THEN "fallback" ELSE "loop") /\ UNCHANGED <<L, window, hop, refs, ests, k, nan>>
Window == /\ pc = "loop" /\ k < NWin(L, window, hop)
          /\ nan' = Append(nan, NaNWindow(refs, ests, k, window, hop)) /\ k' = k + 1
          /\ UNCHANGED <<L, window, hop, refs, ests, pc>>
Finish == /\ pc = "loop" /\ k = NWin(L, window, hop) /\ pc' = "done" /\ UNCHANGED <<L, window, hop, refs, ests, k, nan>>
FallbackDone == /\ pc = "fallback" /\ pc' = "done" /\ UNCHANGED <<L, window, hop, refs, ests, k, nan>>
Next == Start \/ Window \/ Finish \/ FallbackDone
Spec == Init /\ [][Next]_vars
WindowsFit == pc = "loop" => \A j \in 0..(k - 1) : j * hop + window <= L
NextWouldNotFit == pc = "done" /\ ~Fallback(L, window, hop) => NWin(L, window, hop) * hop + window > L
AllHandled == pc = "done" /\ ~Fallback(L, window, hop) => Len(nan) = NWin(L, window, hop)
Export == pc = "done" => PrintT("ROW" \o ToJson([L |-> L, window |-> window, hop |-> hop, refs |-> refs, ests |-> ests,
                                                  cols |-> Columns(L, window, hop), fallback |-> Fallback(L, window, hop), nan |-> nan]))
=============================================================================
