----------------------------- MODULE Intervals -----------------------------
(* Labelled time intervals on an integer lattice, the semantic function "which label does  *)
(* the annotation give to each instant", and the specifications of util.adjust_intervals,   *)
(* adjust_events, merge_labeled_intervals, interpolate_intervals, intervals_to_samples,     *)
(* intervals_to_boundaries / boundaries_to_intervals written against that function.         *)
(* An annotation is a pair (ivs, labs): ivs a sequence of <<start, end>>, labs a sequence   *)
(* of labels of the same length.  All boundaries are lattice integers, so the labelling is  *)
(* constant on each open unit cell (k, k+1): checking every cell checks every instant.      *)
EXTENDS Integers, Sequences, FiniteSets, Rat

NONE_T == -1            \* "t_min / t_max not given"
GAP    == "__GAP"       \* no interval covers the cell

Starts(ivs) == {ivs[i][1] : i \in 1..Len(ivs)}
Ends(ivs)   == {ivs[i][2] : i \in 1..Len(ivs)}
SpanMin(ivs) == MinSet(Starts(ivs) \cup Ends(ivs))
SpanMax(ivs) == MaxSet(Starts(ivs) \cup Ends(ivs))
PositiveDur(ivs) == \A i \in 1..Len(ivs) : ivs[i][2] > ivs[i][1]
(* time-ordered and disjoint (gaps allowed) *)
Ordered(ivs) == \A i \in 1..(Len(ivs) - 1) : ivs[i][2] <= ivs[i + 1][1]
Contiguous(ivs) == \A i \in 1..(Len(ivs) - 1) : ivs[i][2] = ivs[i + 1][1]

(* label of the open cell (k, k+1): the covering interval's label, GAP if none.            *)
Covering(ivs, k) == {i \in 1..Len(ivs) : ivs[i][1] <= k /\ k + 1 <= ivs[i][2]}
CellLabel(ivs, labs, k) ==
  LET c == Covering(ivs, k) IN IF c = {} THEN GAP ELSE labs[MaxSet(c)]
(* label at the lattice POINT t under closed intervals, later interval at a shared boundary *)
PointCover(ivs, t) == {i \in 1..Len(ivs) : ivs[i][1] <= t /\ t <= ivs[i][2]}
PointLabel(ivs, labs, t, fill) ==
  LET c == PointCover(ivs, t) IN IF c = {} THEN fill ELSE labs[MaxSet(c)]

(* ---------------- adjust_intervals: what the result must MEAN ------------------------- *)
Lo(ivs, tmin) == IF tmin = NONE_T THEN SpanMin(ivs) ELSE tmin
Hi(ivs, tmax) == IF tmax = NONE_T THEN SpanMax(ivs) ELSE tmax
(* expected label of cell k of the requested range *)
(* "before the first / after the last interval" refers to the intervals RETAINED by the crop  *)
(* (positive overlap with the range): when a crop point falls inside an internal gap, the     *)
(* part of that gap inside the range is documented as "range exceeds the span of the data"    *)
(* and receives the fill label - the code's reading, named in DESIGN.md.                      *)
Kept(ivs, lo, hi) == {i \in 1..Len(ivs) : MinI(ivs[i][2], hi) > MaxI(ivs[i][1], lo)}
ExpectCell(ivs, labs, k, sl, el, lo, hi) ==
  LET kept == Kept(ivs, lo, hi)
      kmin == MinSet({ivs[i][1] : i \in kept})
      kmax == MaxSet({ivs[i][2] : i \in kept})
  IN  IF k + 1 <= kmin THEN sl
      ELSE IF k >= kmax THEN el
      ELSE CellLabel(ivs, labs, k)
(* Both labellings are constant between consecutive boundaries of input and result, so it is  *)
(* enough to look at the unit cell that starts at each such boundary inside [lo, hi): this      *)
(* checks EVERY instant and is independent of how fine the lattice is.                          *)
CheckCells(a, b, lo, hi) == {k \in Starts(a) \cup Ends(a) \cup Starts(b) \cup Ends(b) \cup {lo} : lo <= k /\ k < hi}
(* total verdict on a (claimed) result; names the failing clause *)
AdjustVerdict(ivs, labs, tmin, tmax, sl, el, oivs, olabs) ==
  LET lo == Lo(ivs, tmin)  hi == Hi(ivs, tmax) IN
  IF Len(oivs) # Len(olabs) THEN "labels-length"
  ELSE IF Len(oivs) = 0 THEN "empty-result"
  ELSE IF ~PositiveDur(oivs) THEN "non-positive-duration"
  ELSE IF ~Ordered(oivs) THEN "not-time-ordered"
  ELSE IF oivs[1][1] # lo THEN "does-not-begin-at-t_min"
  ELSE IF oivs[Len(oivs)][2] # hi THEN "does-not-end-at-t_max"
  ELSE IF \E k \in CheckCells(ivs, oivs, lo, hi) : CellLabel(oivs, olabs, k) # ExpectCell(ivs, labs, k, sl, el, lo, hi)
       THEN "label-function-changed"
  ELSE "ok"

(* ---------------- adjust_intervals: one constructive reading of the documentation ------ *)
(* crop every interval to [lo, hi], drop what becomes empty, pad with the fill labels       *)
RECURSIVE CropSeq(_, _, _, _)
CropSeq(ivs, labs, lo, hi) ==
  IF ivs = <<>> THEN <<>>
  ELSE LET s == MaxI(Head(ivs)[1], lo)  e == MinI(Head(ivs)[2], hi)
           rest == CropSeq(Tail(ivs), Tail(labs), lo, hi)
       IN  IF e > s THEN <<<<<<s, e>>, Head(labs)>>>> \o rest ELSE rest
AdjustSpec(ivs, labs, tmin, tmax, sl, el) ==
  LET lo == Lo(ivs, tmin)  hi == Hi(ivs, tmax)
      body == CropSeq(ivs, labs, lo, hi)
      first == body[1][1][1]
      last  == body[Len(body)][1][2]
      pre  == IF first > lo THEN <<<<<<lo, first>>, sl>>>> ELSE <<>>
      post == IF last < hi THEN <<<<<<last, hi>>, el>>>> ELSE <<>>
      all  == pre \o body \o post
  IN  [ivs |-> [i \in 1..Len(all) |-> all[i][1]], labs |-> [i \in 1..Len(all) |-> all[i][2]]]
(* the range must overlap the annotation in positive length: otherwise "adjusting" is undefined *)
AdjustDomain(ivs, tmin, tmax) ==
  /\ Len(ivs) > 0 /\ PositiveDur(ivs) /\ Ordered(ivs)
  /\ Lo(ivs, tmin) < Hi(ivs, tmax)
  /\ Kept(ivs, Lo(ivs, tmin), Hi(ivs, tmax)) # {}
(* the input-class tag used to identify known findings: computed from the input alone *)
AdjustClass(ivs, tmin, tmax) ==
  IF tmin # NONE_T /\ \E i \in 1..Len(ivs) : ivs[i][2] = tmin THEN "interval-ends-at-t_min"
  ELSE IF tmax # NONE_T /\ \E i \in 1..Len(ivs) : ivs[i][1] = tmax THEN "interval-starts-at-t_max"
  ELSE "general"

(* ---------------- merge_labeled_intervals ------------------------------------------------ *)
Bounds(ivs) == Starts(ivs) \cup Ends(ivs)
RECURSIVE SortSet(_)
SortSet(S) == IF S = {} THEN <<>> ELSE LET m == MinSet(S) IN <<m>> \o SortSet(S \ {m})
MergeSpec(xi, xl, yi, yl) ==
  LET b == SortSet(Bounds(xi) \cup Bounds(yi))
      n == Len(b) - 1
  IN  [ivs |-> [k \in 1..n |-> <<b[k], b[k + 1]>>],
       xl  |-> [k \in 1..n |-> CellLabel(xi, xl, b[k])],
       yl  |-> [k \in 1..n |-> CellLabel(yi, yl, b[k])]]
SumDur(ivs) == SumSeq([i \in 1..Len(ivs) |-> ivs[i][2] - ivs[i][1]])
MergeVerdict(xi, xl, yi, yl, oi, oxl, oyl) ==
  IF Len(oi) # Len(oxl) \/ Len(oi) # Len(oyl) THEN "labels-length"
  ELSE IF ~PositiveDur(oi) \/ ~Contiguous(oi) THEN "not-a-segmentation"
  ELSE IF SumDur(oi) # SumDur(xi) THEN "duration-not-conserved"
  ELSE IF ~(Bounds(xi) \cup Bounds(yi) \subseteq Bounds(oi)) THEN "not-a-common-refinement"
  ELSE IF \E k \in CheckCells(xi \o yi, oi, SpanMin(xi), SpanMax(xi)) :
             \/ CellLabel(oi, oxl, k) # CellLabel(xi, xl, k)
             \/ CellLabel(oi, oyl, k) # CellLabel(yi, yl, k) THEN "label-function-changed"
  ELSE "ok"

(* ---------------- interpolate_intervals / intervals_to_samples ---------------------------- *)
InterpSpec(ivs, labs, pts, fill) == [i \in 1..Len(pts) |-> PointLabel(ivs, labs, pts[i], fill)]
(* sample grid: k * size + offset for k = 0 .. floor(max / size) - 1 (all in lattice units)   *)
SampleTimes(ivs, offset, size) ==
  LET n == SpanMax(ivs) \div size IN [k \in 1..n |-> (k - 1) * size + offset]

(* ---------------- boundaries <-> intervals ------------------------------------------------ *)
BoundariesOf(ivs) == SortSet(Bounds(ivs))
IntervalsOf(b) == [k \in 1..(Len(b) - 1) |-> <<b[k], b[k + 1]>>]

(* ---------------- adjust_events ------------------------------------------------------------ *)
(* events inside [t_min, t_max] are kept, the two range ends are added when missing           *)
RECURSIVE FilterSeq(_, _, _)
FilterSeq(s, lo, hi) == IF s = <<>> THEN <<>>
  ELSE (IF Head(s) >= lo /\ Head(s) <= hi THEN <<Head(s)>> ELSE <<>>) \o FilterSeq(Tail(s), lo, hi)
AdjustEventsSpec(evs, tmin, tmax) ==
  LET lo == IF tmin = NONE_T THEN evs[1] ELSE tmin
      hi == IF tmax = NONE_T THEN evs[Len(evs)] ELSE tmax
      body == FilterSeq(evs, lo, hi)
      pre  == IF body = <<>> \/ body[1] > lo THEN <<lo>> ELSE <<>>
      post == IF body = <<>> \/ body[Len(body)] < hi THEN <<hi>> ELSE <<>>
  IN  pre \o body \o post
(* the labels travel with their events; an added range end is labelled "__T_MIN" / "__T_MAX" *)
RECURSIVE FilterLabs(_, _, _, _)
FilterLabs(s, l, lo, hi) == IF s = <<>> THEN <<>>
  ELSE (IF Head(s) >= lo /\ Head(s) <= hi THEN <<Head(l)>> ELSE <<>>) \o FilterLabs(Tail(s), Tail(l), lo, hi)
AdjustEventLabelsSpec(evs, labs, tmin, tmax) ==
  LET lo == IF tmin = NONE_T THEN evs[1] ELSE tmin
      hi == IF tmax = NONE_T THEN evs[Len(evs)] ELSE tmax
      body == FilterSeq(evs, lo, hi)
      pre  == IF body = <<>> \/ body[1] > lo THEN <<"__T_MIN">> ELSE <<>>
      post == IF body = <<>> \/ body[Len(body)] < hi THEN <<"__T_MAX">> ELSE <<>>
  IN  pre \o FilterLabs(evs, labs, lo, hi) \o post
=============================================================================
