SPECIFICATION Spec
CONSTANTS N = 3
          Vs = {0, 1, 2, 5}
          Tols <- TolsQ
          U = 2
          Extra = {0, 9}
INVARIANT NormalEq
INVARIANT TolMonotone
INVARIANT AffinePerfect
INVARIANT Export
