SPECIFICATION Spec
CONSTANTS P = 7
          N = 4
          W = {0, 1, 2}
          Mode = "abs"
          Modulus = 24
INVARIANT Bound
INVARIANT SwapSym
INVARIANT SelfMatch
INVARIANT Export
