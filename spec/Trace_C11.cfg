SPECIFICATION Spec
