SPECIFICATION Spec
