SPECIFICATION Spec
CONSTANTS T = 3
          NLR = 2
          NLE = 2
          NS = 2
          Labels = {"a"}
          FS = {1}
          Windows = {0, 2}
          EStarts = {0, 1}
          EEnds = {2, 4}
INVARIANT Aligned
INVARIANT InRange
INVARIANT Export
