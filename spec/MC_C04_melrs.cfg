SPECIFICATION Spec
CONSTANTS NR = 3
          NE = 2
          Cs = {0, 1000, 2200}
INVARIANT Sane
INVARIANT Export
