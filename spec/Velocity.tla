------------------------------ MODULE Velocity ------------------------------
(* transcription_velocity.match_notes: which pairs of a note matching also agree in velocity.        *)
(* Given the note matching M (pairs <<ref index, est index>>, from transcription.match_notes), the    *)
(* reference velocities rv and estimated velocities evl (non-negative integers here):                 *)
(*  1. reference velocities are normalised to [0,1] over ALL reference notes:                          *)
(*       y_i = (rv[i] - min rv) / max(1, max rv - min rv);                                             *)
(*  2. the estimated velocities of the MATCHED notes are mapped onto them by the least-squares line    *)
(*       y ~ slope * x + intercept fitted on the matched pairs (x = evl[j], y = y_i); when all matched  *)
(*       x coincide (also: a single pair) the minimum-norm solution predicts the mean of the y;         *)
(*  3. a pair stays iff |slope * x + intercept - y| < velocity_tolerance.                               *)
(* Everything is kept in integers over the common denominator r * det * n (no rounding anywhere);      *)
(* a pair exactly ON the tolerance is unspecified (the code works in floating point).                  *)
EXTENDS Rat, FiniteSets
SetMin(S) == CHOOSE m \in S : \A k \in S : m <= k
SetMax(S) == CHOOSE m \in S : \A k \in S : k <= m
(* velocities are integers in units of 1/u (u = 1: whole numbers; u = 2: halves), so "max(1, range)" is MaxI(u, range) *)
VRange(rv, u) == LET S == {rv[i] : i \in 1..Len(rv)} IN MaxI(u, SetMax(S) - SetMin(S))
YNum(rv, i) == rv[i] - SetMin({rv[k] : k \in 1..Len(rv)})
(* M is given as a sequence of pairs so that sums are folds over 1..Len(M) *)
Sx(M, evl)      == SumSeq([k \in 1..Len(M) |-> evl[M[k][2]]])
Sxx(M, evl)     == SumSeq([k \in 1..Len(M) |-> evl[M[k][2]] * evl[M[k][2]]])
SY(M, rv)       == SumSeq([k \in 1..Len(M) |-> YNum(rv, M[k][1])])
SxY(M, rv, evl) == SumSeq([k \in 1..Len(M) |-> evl[M[k][2]] * YNum(rv, M[k][1])])
Det(M, evl)     == Len(M) * Sxx(M, evl) - Sx(M, evl) * Sx(M, evl)
(* numerator / denominator of the absolute velocity error of the pair M[k] *)
ErrNum(M, rv, evl, k) ==
  LET n == Len(M)  det == Det(M, evl)
      A == n * SxY(M, rv, evl) - Sx(M, evl) * SY(M, rv)            \* slope     = A / (r det)
      B == SY(M, rv) * det - A * Sx(M, evl)                        \* intercept = B / (r det n)
  IN  IF det = 0 THEN AbsI(SY(M, rv) - YNum(rv, M[k][1]) * n)
      ELSE AbsI(A * evl[M[k][2]] * n + B - YNum(rv, M[k][1]) * det * n)
ErrDen(M, rv, evl, u) == LET n == Len(M) det == Det(M, evl) IN IF det = 0 THEN VRange(rv, u) * n ELSE VRange(rv, u) * det * n
Within(M, rv, evl, k, tol, u) == ErrNum(M, rv, evl, k) * tol[2] < tol[1] * ErrDen(M, rv, evl, u)
OnTol(M, rv, evl, k, tol, u)  == ErrNum(M, rv, evl, k) * tol[2] = tol[1] * ErrDen(M, rv, evl, u)
(* verdict on a recorded call: inner = the note matching it obtained, final = what it returned *)
VelVerdict(inner, final, rv, evl, tol, u) ==
  LET In == {inner[k] : k \in 1..Len(inner)}  Fi == {final[k] : k \in 1..Len(final)} IN
  IF Cardinality(Fi) # Len(final) THEN "duplicate-pair"
  ELSE IF ~(Fi \subseteq In) THEN "velocity-pair-not-in-note-matching"
  ELSE IF \E k \in 1..Len(inner) : Within(inner, rv, evl, k, tol, u) /\ inner[k] \notin Fi THEN "velocity-hit-dropped"
  ELSE IF \E k \in 1..Len(inner) : ~Within(inner, rv, evl, k, tol, u) /\ ~OnTol(inner, rv, evl, k, tol, u) /\ inner[k] \in Fi THEN "velocity-miss-kept"
  ELSE "ok"
(* facts about the definition itself, checked by MC_Velocity: the least-squares residuals sum to zero, and a *)
(* looser tolerance keeps at least the same pairs                                                            *)
=============================================================================
