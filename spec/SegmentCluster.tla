-------------------------- MODULE SegmentCluster --------------------------
(* Segment labelling scores as clustering indices (C16).  Two labelled segmentations of the     *)
(* same span are sampled on the frame grid k * fs (k = 0 .. floor(T / fs) - 1); a frame takes    *)
(* the label of the interval containing its time (the later interval at a shared boundary);      *)
(* labels are compared case-insensitively.  From the two frame-label sequences:                  *)
(*   - the contingency table and its marginals                                                    *)
(*   - pairwise precision / recall, Rand index and adjusted Rand index, each in TWO               *)
(*     formulations (counting frame pairs by definition / binomial closed forms on the table)     *)
(*     that TLC checks equal on every input                                                        *)
(*   - the entropy-based scores (MI, AMI, NMI, NCE, V) are functions of the table alone; their     *)
(*     transcendental evaluation is done outside TLC from the table exported here, together        *)
(*     with the conventions decided here (single-cluster cases, zero normalisers).                 *)
EXTENDS Intervals

Lower(l) == CASE l = "A" -> "a" [] l = "B" -> "b" [] l = "C" -> "c" [] OTHER -> l
FrameTimes(T, fs) == [k \in 1..(T \div fs) |-> (k - 1) * fs]
FrameLabels(ivs, labs, fs) ==
  LET t == FrameTimes(SpanMax(ivs), fs) IN [k \in 1..Len(t) |-> Lower(PointLabel(ivs, labs, t[k], "none"))]
LabelSet(y) == {y[k] : k \in 1..Len(y)}
Count(y, z, a, b) == Cardinality({k \in 1..Len(y) : y[k] = a /\ z[k] = b})
RowSum(y, a) == Cardinality({k \in 1..Len(y) : y[k] = a})
C2(n) == (n * (n - 1)) \div 2

(* ---------- by definition: count pairs of frames ----------------------------------------- *)
Pairs(n) == {<<p, q>> \in (1..n) \X (1..n) : p < q}
AgreePairs(y) == Cardinality({pq \in Pairs(Len(y)) : y[pq[1]] = y[pq[2]]})
BothAgree(y, z) == Cardinality({pq \in Pairs(Len(y)) : y[pq[1]] = y[pq[2]] /\ z[pq[1]] = z[pq[2]]})
BothDisagree(y, z) == Cardinality({pq \in Pairs(Len(y)) : y[pq[1]] # y[pq[2]] /\ z[pq[1]] # z[pq[2]]})
PairwiseP(yr, ye) == Norm(BothAgree(yr, ye), AgreePairs(ye))
PairwiseR(yr, ye) == Norm(BothAgree(yr, ye), AgreePairs(yr))
RandDef(yr, ye) == Norm(BothAgree(yr, ye) + BothDisagree(yr, ye), C2(Len(yr)))

(* ---------- closed forms on the contingency table ------------------------------------------ *)
SumC2Cells(yr, ye) == SumSet0({<<<<a, b>>, C2(Count(yr, ye, a, b))>> : a \in LabelSet(yr), b \in LabelSet(ye)})
SumC2Rows(y) == SumSet0({<<a, C2(RowSum(y, a))>> : a \in LabelSet(y)})
PairwisePClosed(yr, ye) == Norm(SumC2Cells(yr, ye), SumC2Rows(ye))
PairwiseRClosed(yr, ye) == Norm(SumC2Cells(yr, ye), SumC2Rows(yr))
RandClosed(yr, ye) ==
  Norm(C2(Len(yr)) + 2 * SumC2Cells(yr, ye) - SumC2Rows(yr) - SumC2Rows(ye), C2(Len(yr)))
(* adjusted Rand index: (index - expected) / (max - expected); 1 when both partitions are one    *)
(* cluster, or both are all singletons (nothing to adjust)                                        *)
AriTrivial(yr, ye) ==
  LET n == Len(yr) kr == Cardinality(LabelSet(yr)) ke == Cardinality(LabelSet(ye)) IN
  (kr = 1 /\ ke = 1) \/ (kr = 0 /\ ke = 0) \/ (kr = n /\ ke = n)
Ari(yr, ye) ==
  IF AriTrivial(yr, ye) THEN <<1, 1>>
  ELSE LET sc == SumC2Cells(yr, ye)  sa == SumC2Rows(yr)  sb == SumC2Rows(ye)  tot == C2(Len(yr))
           expected == Norm(sa * sb, tot)
           maxi == Norm(sa + sb, 2)
       IN  RDiv(RSub(R(sc), expected), RSub(maxi, expected))
(* the same from pair counts: with a = pairs together in both, b = together in ref only, ...      *)
AriDef(yr, ye) ==
  IF AriTrivial(yr, ye) THEN <<1, 1>>
  ELSE LET a == BothAgree(yr, ye)
           b == AgreePairs(yr) - a
           c == AgreePairs(ye) - a
           d == BothDisagree(yr, ye)
           num == 2 * (a * d - b * c)
           den == (a + b) * (b + d) + (a + c) * (c + d)
       IN  Norm(num, den)
(* the table itself, for the entropy-based scores: {<<ref label, est label, count>>} *)
Cells(yr, ye) == {<<a, b, Count(yr, ye, a, b)>> : a \in LabelSet(yr), b \in LabelSet(ye)}
SamePartition(y, z) == \A p, q \in 1..Len(y) : (y[p] = y[q]) <=> (z[p] = z[q])
=============================================================================
