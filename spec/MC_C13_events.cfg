SPECIFICATION Spec
CONSTANTS Kind = "events"
          P = 5
          NI = 0
          NP = 3
          Labels = {"a", "b"}
INVARIANT SpecAgrees
INVARIANT Export
