--------------------------- MODULE Trace_Session ---------------------------
(* Judges what the recorder saw (C15).  Two kinds of records:                                *)
(*   "call":  one recorded call of a public function - fn, the interned digests of every     *)
(*            argument object BEFORE and AFTER the call, the interned key (function +        *)
(*            argument values + keywords) and the interned outcome (value bits or exception) *)
(*            verdict: heap' = heap, i.e. pre = post for every argument                      *)
(*   "group": all calls that share one key; verdict: they share one outcome (memo is a       *)
(*            function), and every member really has that key                                *)
(* Digests are interned by the harness to small integers; equality of integers is equality   *)
(* of the bit patterns they stand for.                                                       *)
EXTENDS Integers, Sequences, FiniteSets, TLC, Json, IOUtils, SequencesExt
TraceLog == JsonDeserialize(IOEnv.TRACE_FILE)
Calls == TraceLog.calls
Groups == TraceLog.groups
VARIABLES kind, i, done
vars == <<kind, i, done>>
CallVerdict(c) ==
  IF Len(c.pre) # Len(c.post) THEN "argument-count-changed"
  ELSE IF \E k \in 1..Len(c.pre) : c.pre[k] # c.post[k] THEN "argument-modified"
  ELSE "ok"
Changed(c) == {c.names[k] : k \in {x \in 1..Len(c.pre) : c.pre[x] # c.post[x]}}
GroupVerdict(g) ==
  IF \E m \in 1..Len(g.members) : Calls[g.members[m]].key # g.key THEN "group-membership-wrong"
  ELSE IF Cardinality({Calls[g.members[m]].out : m \in 1..Len(g.members)}) > 1 THEN "same-call-different-outcome"
  ELSE "ok"
Init == /\ done = FALSE
        /\ \/ (kind = "call" /\ i \in 1..Len(Calls))
           \/ (kind = "group" /\ i \in 1..Len(Groups))
Next == /\ ~done /\ done' = TRUE /\ UNCHANGED <<kind, i>>
        /\ IF kind = "call"
           THEN LET v == CallVerdict(Calls[i]) IN
                v # "ok" => PrintT("REJECT" \o ToJson([tid |-> i, kind |-> "call", clause |-> v,
                                                        fn |-> Calls[i].fn, what |-> Changed(Calls[i])]))
           ELSE LET v == GroupVerdict(Groups[i]) IN
                v # "ok" => PrintT("REJECT" \o ToJson([tid |-> i, kind |-> "group", clause |-> v,
                                                        fn |-> Calls[Groups[i].members[1]].fn, what |-> {}]))
Spec == Init /\ [][Next]_vars
(* every call belongs to exactly one group: checked once, as a postcondition *)
AllGrouped ==
  /\ TLCGet("stats").distinct > 0          \* (a postcondition may not be a constant expression)
  /\ PrintT("DONE" \o ToJson([calls |-> Len(Calls), groups |-> Len(Groups)]))
  /\ FoldSeq(LAMBDA g, acc : acc + Len(g.members), 0, Groups) = Len(Calls)
  /\ Cardinality(UNION {{g.members[m] : m \in 1..Len(g.members)} : g \in {Groups[k] : k \in 1..Len(Groups)}}) = Len(Calls)
=============================================================================
