SPECIFICATION Spec
CONSTANTS Kind = "merge"
          P = 4
          NI = 3
          NP = 0
          Labels = {"a", "b"}
INVARIANT SpecAgrees
INVARIANT Export
