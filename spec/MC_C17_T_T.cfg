SPECIFICATION Spec
CONSTANTS Kind = "T"
          T = 6
          NL = 3
          NS = 3
          Labels = {"a"}
          Windows = {0, 1, 2, 3}
          FS = {1, 2}
INVARIANT InRange
INVARIANT SelfPerfect
INVARIANT Export
