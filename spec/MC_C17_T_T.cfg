SPECIFICATION Spec
CONSTANTS Kind = "T"
          T = 5
          NL = 3
          NS = 2
          Labels = {"a"}
          Windows = {0, 1, 2, 3}
          FS = {1, 2}
INVARIANT InRange
INVARIANT SelfPerfect
INVARIANT Export
