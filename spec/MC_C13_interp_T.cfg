SPECIFICATION Spec
CONSTANTS Kind = "interp"
          P = 8
          NI = 3
          NP = 4
          Labels = {"a", "b"}
INVARIANT SpecAgrees
INVARIANT Export
