---------------------------- MODULE MC_C17_eval ----------------------------
(* hierarchy.evaluate as a composition: every level of the reference is adjusted to start at 0, every  *)
(* level of the estimate is adjusted to [0, end of the reference] (Intervals!AdjustSpec: crop, and pad   *)
(* with the synthetic labels "__T_MIN" / "__T_MAX"), then the reduced and full T-measures and the        *)
(* L-measure (Hierarchy.tla) are taken on the aligned hierarchies.  Estimate levels may start late and    *)
(* end early or late, each level on its own.                                                              *)
EXTENDS Hierarchy, TLC, Json
CONSTANTS T, NLR, NLE, NS, Labels, FS, Windows, EStarts, EEnds
VARIABLES ref, est, fs, w, out, pc
vars == <<ref, est, fs, w, out, pc>>
SegsOn(s, e) == {IntervalsOf(SortSet(X \cup {s, e})) : X \in {Y \in SUBSET ((s + 1)..(e - 1)) : Cardinality(Y) <= NS - 1}}
LevelOn(s, e) == UNION {{[ivs |-> iv, labs |-> l] : l \in [1..Len(iv) -> Labels]} : iv \in SegsOn(s, e)}
RefHier == UNION {[1..k -> LevelOn(0, T)] : k \in 1..NLR}
EstLevel == UNION {LevelOn(s, e) : s \in EStarts, e \in EEnds}
EstHier == UNION {[1..k -> EstLevel] : k \in 1..NLE}
NOWIN == 0
Init == /\ ref \in RefHier /\ est \in EstHier /\ fs \in FS /\ w \in Windows
        /\ out = <<>> /\ pc = "in"
Align(h, tmax) == [l \in 1..Len(h) |->
                     LET a == AdjustSpec(h[l].ivs, h[l].labs, 0, tmax, "__T_MIN", "__T_MAX") IN [ivs |-> a.ivs, labs |-> a.labs]]
TEnd == MaxSet({SpanMax(ref[l].ivs) : l \in 1..Len(ref)})
RefA == Align(ref, NONE_T)
EstA == Align(est, TEnd)
N == NFrames(RefA, fs)
WF == IF w = NOWIN THEN N ELSE w
DRT(a, b) == DepthT(RefA, a, b, fs)
DET(a, b) == DepthT(EstA, a, b, fs)
DRL(a, b) == DepthL(RefA, a, b, fs)
DEL(a, b) == DepthL(EstA, a, b, fs)
Solve == /\ pc = "in" /\ pc' = "out" /\ UNCHANGED <<ref, est, fs, w>>
         /\ out' = [refA |-> RefA, estA |-> EstA,
                    tpr |-> Gauc(DET, DRT, N, WF, FALSE), trr |-> Gauc(DRT, DET, N, WF, FALSE),
                    tpf |-> Gauc(DET, DRT, N, WF, TRUE),  trf |-> Gauc(DRT, DET, N, WF, TRUE),
                    lp  |-> Gauc(DEL, DRL, N, N, TRUE),   lr  |-> Gauc(DRL, DEL, N, N, TRUE)]
Next == Solve
Spec == Init /\ [][Next]_vars
(* after alignment every level of both hierarchies covers exactly [0, end of the reference] *)
Aligned == pc = "out" => \A h \in {out.refA, out.estA} : \A l \in 1..Len(h) :
             h[l].ivs[1][1] = 0 /\ h[l].ivs[Len(h[l].ivs)][2] = TEnd /\ Len(h[l].ivs) = Len(h[l].labs)
InRange == pc = "out" => \A k \in {"tpr", "trr", "tpf", "trf", "lp", "lr"} : InUnit(out[k])
Export == pc = "out" => PrintT("ROW" \o ToJson([ref |-> ref, est |-> est, fs |-> fs, w |-> w, out |-> out]))
=============================================================================
