--------------------------- MODULE MC_C04_beat ---------------------------
(* Reference beat sequences on an even lattice (so that metrical variations have lattice        *)
(* midpoints) with inter-beat gaps of 2 or 4 units, estimates anywhere on the lattice: P-score,    *)
(* Goto and the Cemgil terms by specification.                                                      *)
EXTENDS Beat, TLC, Json
CONSTANTS PMax, NR, NE
VARIABLES ref, est, thr, out, pc
vars == <<ref, est, thr, out, pc>>
Evens == {2 * k : k \in 0..(PMax \div 2)}
Refs == {s \in StrictSeqs(Evens, NR) : Len(s) >= 2 /\ \A k \in 1..(Len(s) - 1) : s[k + 1] - s[k] \in {2, 4}}
Ests == StrictSeqs(0..PMax, NE) \ {<<>>}
Init == ref \in Refs /\ est \in Ests /\ thr \in {<<1, 5>>, <<1, 4>>} /\ out = <<>> /\ pc = "in"
Solve == /\ pc = "in" /\ pc' = "out" /\ UNCHANGED <<ref, est, thr>>
         /\ out' = [ps |-> PScore(ref, est, thr), goto |-> Goto(ref, est, <<35, 100>>, <<1, 5>>, <<1, 5>>),
                    goto2 |-> Goto(ref, est, <<1, 4>>, <<1, 4>>, <<1, 2>>), cem |-> CemgilTerms(ref, est)]
Next == Solve
Spec == Init /\ [][Next]_vars
(* C02 on the definitions: a copy of a reference with >= 5 beats satisfies Goto and has P-score 1 *)
SelfPerfect == pc = "out" /\ ref = est /\ Len(ref) >= 5 => out.goto /\ out.ps.score = <<1, 1>>
Export == pc = "out" => PrintT("ROW" \o ToJson([ref |-> ref, est |-> est, thr |-> thr, out |-> out]))
=============================================================================
