--------------------------- MODULE MC_C04_beat ---------------------------
(* Reference beat sequences on an even lattice (so that metrical variations have lattice        *)
(* midpoints) with inter-beat gaps of 2 or 4 units, estimates anywhere on the lattice: P-score,    *)
(* Goto and the Cemgil terms by specification.                                                      *)
EXTENDS Beat, TLC, Json
CONSTANTS PMax, NR, NE, Family
VARIABLES ref, est, thr, out, pc
vars == <<ref, est, thr, out, pc>>
Evens == {2 * k : k \in 0..(PMax \div 2)}
Refs == {s \in StrictSeqs(Evens, NR) : Len(s) >= 2 /\ \A k \in 1..(Len(s) - 1) : s[k + 1] - s[k] \in {2, 4}}
Ests == StrictSeqs(0..PMax, NE) \ {<<>>}
(* family "jitter": a regular reference (period 8 units) and an estimate that moves every beat by -1, 0 or +1 unit   *)
(* (errors of +-1/4 of the half period, inside the Goto threshold, of either sign)                                      *)
Regular(n) == [k \in 1..n |-> 8 * (k - 1)]
Jitters(n) == {[k \in 1..n |-> Regular(n)[k] + 1 + j[k]] : j \in [1..n -> {-1, 0, 1}]}
Init == /\ thr \in {<<1, 5>>, <<1, 4>>} /\ out = <<>> /\ pc = "in"
        /\ IF Family = "free" THEN ref \in Refs /\ est \in Ests
           ELSE \E n \in {5, 6} : ref = [k \in 1..n |-> Regular(n)[k] + 1] /\ est \in Jitters(n)
Solve == /\ pc = "in" /\ pc' = "out" /\ UNCHANGED <<ref, est, thr>>
         /\ out' = [ps |-> PScore(ref, est, thr), goto |-> Goto(ref, est, <<35, 100>>, <<1, 5>>, <<1, 5>>),
                    goto2 |-> Goto(ref, est, <<1, 4>>, <<1, 4>>, <<1, 2>>), cem |-> CemgilTerms(ref, est),
                    cont |-> Continuity(ref, est, <<175, 1000>>, <<175, 1000>>), cont2 |-> Continuity(ref, est, <<1, 2>>, <<1, 4>>),
                    igf |-> (IF Len(est) >= 2 /\ Len(ref) >= 2 THEN IGCounts(ref, est, 5) ELSE [counts |-> <<>>, edge |-> FALSE, early |-> FALSE]),
                    igb |-> (IF Len(est) >= 2 /\ Len(ref) >= 2 THEN IGCounts(est, ref, 5) ELSE [counts |-> <<>>, edge |-> FALSE, early |-> FALSE]),
                    igok |-> Len(est) >= 2 /\ Len(ref) >= 2]
Next == Solve
Spec == Init /\ [][Next]_vars
(* C02 on the definitions: a copy of a reference with >= 5 beats satisfies Goto and has P-score 1 *)
SelfPerfect == pc = "out" /\ ref = est /\ Len(ref) >= 5 => out.goto /\ out.ps.score = <<1, 1>> /\ out.cont[1] = <<1, 1>> /\ out.cont[2] = <<1, 1>>
(* C07 on the definitions: continuous <= total, correct level <= any level *)
ContNested == pc = "out" => RLeq(out.cont[1], out.cont[2]) /\ RLeq(out.cont[3], out.cont[4]) /\ RLeq(out.cont[1], out.cont[3]) /\ RLeq(out.cont[2], out.cont[4])
Export == pc = "out" => PrintT("ROW" \o ToJson([ref |-> ref, est |-> est, thr |-> thr, out |-> out]))
=============================================================================
