------------------------------ MODULE Hierarchy ------------------------------
(* Hierarchical segmentation scores by the triplet-ranking definition (C17).  A hierarchy is a  *)
(* sequence of levels (coarse to fine), each a contiguous labelled segmentation of [0, T].       *)
(* Frames are k = 0 .. T/fs - 1; frame k lies in the segment [s, e) with floor(s/fs) <= k <       *)
(* floor(e/fs).  depth(i, j) = the deepest level at which frames i and j share a segment (T) or    *)
(* carry equal labels (L); 0 if none.  For a query frame q and the candidate frames of its         *)
(* window, a reference triple is (q, i, j) with depth_ref(q,i) exceeding depth_ref(q,j) - by        *)
(* exactly one level (reduced) or by any amount (full); it is recalled when ALSO                    *)
(* depth_est(q,i) > depth_est(q,j).  Recall = mean over the queries that have at least one triple  *)
(* of (recalled / total); precision = the same with the roles exchanged.  The window is the         *)
(* code's half-open  [q - w, q + w)  in frames - named deviation from a symmetric window.           *)
EXTENDS Intervals

Lower(l) == CASE l = "A" -> "a" [] l = "B" -> "b" [] OTHER -> l
NFrames(h, fs) == SpanMax(h[1].ivs) \div fs
SegOf(level, k, fs) == {i \in 1..Len(level.ivs) : level.ivs[i][1] \div fs <= k /\ k < level.ivs[i][2] \div fs}
Together(level, a, b, fs) == \E i \in 1..Len(level.ivs) : i \in SegOf(level, a, fs) /\ i \in SegOf(level, b, fs)
SameLabel(level, a, b, fs) == \E i \in SegOf(level, a, fs) : \E j \in SegOf(level, b, fs) : Lower(level.labs[i]) = Lower(level.labs[j])
DepthT(h, a, b, fs) == LET S == {l \in 1..Len(h) : Together(h[l], a, b, fs)} IN IF S = {} THEN 0 ELSE MaxSet(S)
DepthL(h, a, b, fs) == LET S == {l \in 1..Len(h) : SameLabel(h[l], a, b, fs)} IN IF S = {} THEN 0 ELSE MaxSet(S)

Cands(q, n, w) == {i \in 0..(n - 1) : i # q /\ q - w <= i /\ i < q + w}
(* D(q, i): depth function of the ranking annotation, E: of the other one *)
Triples(D(_, _), q, n, w, full) ==
  {<<i, j>> \in Cands(q, n, w) \X Cands(q, n, w) :
      IF full THEN D(q, i) > D(q, j) ELSE D(q, i) = D(q, j) + 1}
Recalled(D(_, _), Ed(_, _), q, n, w, full) == {t \in Triples(D, q, n, w, full) : Ed(q, t[1]) > Ed(q, t[2])}
(* mean over the queries that have a triple; <<0,1>> when none has *)
Gauc(D(_, _), Ed(_, _), n, w, full) ==
  LET Q == {q \in 0..(n - 1) : Triples(D, q, n, w, full) # {}}
      terms == [q \in Q |-> Norm(Cardinality(Recalled(D, Ed, q, n, w, full)), Cardinality(Triples(D, q, n, w, full)))]
  IN  IF Q = {} THEN <<0, 1>> ELSE RDiv(RSumOver(terms, Q), R(Cardinality(Q)))
=============================================================================
