"""C12 - interval scores are duration-weighted and blind to how time is cut up.

MC_C12 runs chord.evaluate as the stage machine of ChordEval.tla over every pair of small chord
annotations, then applies the Split transformation (cut one interval of either side at an interior
point, same label on both pieces) and evaluates again; TLC checks on the specification that no score
changes, that scores are in range and duration is conserved.  Each exported state is replayed STAGE BY
STAGE into the public functions (adjust_intervals, merge_chord_intervals, merge_labeled_intervals,
intervals_to_durations, the 12 rules, weighted_accuracy, underseg/overseg) and into chord.evaluate.
weighted_accuracy's scale invariance / all-ones / all-zeros, and split invariance of the frame-based
segment and hierarchy labelling scores, are recorded as outcome pairs and judged by Trace_Rel."""
import json
import random

import numpy as np

from .. import tlc, gen, realdata
from ..common import Evidence, Reporter, import_mir_eval, Machinery, frac
from ..relations import RelLog, call

PROP = "C12"
U = 0.25
VOCAB = ["N", "C", "G:min", "C:maj", "C:7", "X", "C:maj/3", "G:min7"]
RULES = ["thirds", "thirds_inv", "triads", "triads_inv", "tetrads", "tetrads_inv", "root", "mirex", "majmin", "majmin_inv",
         "sevenths", "sevenths_inv"]


def arr(ivs):
    return np.array(ivs, dtype=float).reshape(-1, 2) * U


def lat(x):
    k = np.asarray(x, dtype=float) / U
    return np.round(k).astype(int).tolist() if np.allclose(k, np.round(k), atol=1e-9) else None


def replay_row(me, r, rep):
    c, u = me.chord, me.util
    st = r["st"]
    ri, rl = arr(r["ref"]["ivs"]), [VOCAB[i - 1] for i in r["ref"]["labs"]]
    ei, el = arr(r["est"]["ivs"]), [VOCAB[i - 1] for i in r["est"]["labs"]]
    detail = {"ref_intervals": ri.tolist(), "ref_labels": rl, "est_intervals": ei.tolist(), "est_labels": el, "cut": r["cut"]}

    def bad(fn, stage, got, want):
        rep.violation(fn, "stage:" + stage, dict(detail, got=got, expected=want))
    try:
        ai, al = u.adjust_intervals(ei, list(el), ri.min(), ri.max(), c.NO_CHORD, c.NO_CHORD)
        if lat(ai) != st["adj"]["ivs"] or [VOCAB.index(x) + 1 for x in al] != st["adj"]["labs"]:
            return bad("util.adjust_intervals", "Adjust", [lat(ai), al], st["adj"])
        mr, mest = c.merge_chord_intervals(ri, rl), c.merge_chord_intervals(ai, al)
        if lat(mr) != st["mref"]:
            return bad("chord.merge_chord_intervals", "MergeChords(ref)", lat(mr), st["mref"])
        if lat(mest) != st["mest"]:
            return bad("chord.merge_chord_intervals", "MergeChords(est)", lat(mest), st["mest"])
        mi, xl, yl = u.merge_labeled_intervals(ri, rl, ai, al)
        if lat(mi) != st["merged"]["ivs"] or [VOCAB.index(x) + 1 for x in xl] != st["merged"]["xl"] or \
                [VOCAB.index(x) + 1 for x in yl] != st["merged"]["yl"]:
            return bad("util.merge_labeled_intervals", "MergeLabeled", [lat(mi), xl, yl], st["merged"])
        d = u.intervals_to_durations(mi)
        if lat(d) != st["dur"]:
            return bad("util.intervals_to_durations", "Durations", d.tolist(), st["dur"])
        accs = []
        for j, name in enumerate(RULES):
            v = float(c.weighted_accuracy(getattr(c, name)(xl, yl), d))
            accs.append(v)
            if abs(v - float(frac(st["acc"][j]))) > 1e-9:
                return bad("chord." + name, "WeightedAccuracy[%s]" % name, v, st["acc"][j])
        for name, fn in (("under", c.underseg), ("over", c.overseg), ("seg", c.seg)):
            v = float(fn(mr, mest))
            if abs(v - float(frac(st[name]))) > 1e-9:
                return bad("chord." + fn.__name__, "Segmentation[%s]" % name, v, st[name])
        sc = c.evaluate(ri, rl, ei, el)
        want = accs + [float(frac(st["under"])), float(frac(st["over"])), float(frac(st["seg"]))]
        keys = RULES + ["underseg", "overseg", "seg"]
        if list(sc.keys()) != keys:
            return bad("chord.evaluate", "keys", list(sc.keys()), keys)
        for k, w in zip(keys, want):
            if abs(float(sc[k]) - w) > 1e-9:
                return bad("chord.evaluate", "evaluate[%s]" % k, float(sc[k]), w)
    except Exception as ex:  # noqa
        rep.violation("chord.evaluate", "raised-" + type(ex).__name__, dict(detail, message=str(ex)[:200]))


def replay_eval_only(me, r, rep):
    st = r["st"]
    ri, rl = arr(r["ref"]["ivs"]), [VOCAB[i - 1] for i in r["ref"]["labs"]]
    ei, el = arr(r["est"]["ivs"]), [VOCAB[i - 1] for i in r["est"]["labs"]]
    try:
        sc = me.chord.evaluate(ri, rl, ei, el)
        want = [float(frac(x)) for x in st["acc"]] + [float(frac(st["under"])), float(frac(st["over"])), float(frac(st["seg"]))]
        keys = RULES + ["underseg", "overseg", "seg"]
        for k, w in zip(keys, want):
            if abs(float(sc[k]) - w) > 1e-9:
                rep.violation("chord.evaluate", "stage:evaluate[%s]" % k,
                              {"ref_intervals": ri.tolist(), "ref_labels": rl, "est_intervals": ei.tolist(), "est_labels": el,
                               "cut": r["cut"], "got": float(sc[k]), "expected": w})
                return
    except Exception as ex:  # noqa
        rep.violation("chord.evaluate", "raised-" + type(ex).__name__, {"ref_labels": rl, "est_labels": el, "message": str(ex)[:200]})


def split_annotation(rng, iv, labs, unit=1 / 16.0, near=None):
    """cut a random interval at an interior point on a fine lattice; both pieces keep the label.
    With `near` (boundaries of the OTHER annotation) the cut is sometimes placed a few nanoseconds before / after one of them."""
    iv = np.asarray(iv, dtype=float)
    if near is not None and rng.random() < 0.4:
        opts = [(i, b + dlt) for b in near for dlt in (-4e-9, -2e-9, 3e-9) for i in range(len(iv))
                if iv[i, 0] + 1e-6 < b + dlt < iv[i, 1] - 1e-6]
        if opts:
            i, t = rng.choice(opts)
            niv = np.vstack([iv[:i], [[iv[i, 0], t], [t, iv[i, 1]]], iv[i + 1:]])
            return niv, list(labs[:i]) + [labs[i], labs[i]] + list(labs[i + 1:]), float(t)
    cand = [i for i in range(len(iv)) if iv[i, 1] - iv[i, 0] >= 2 * unit]
    if not cand:
        return iv.copy(), list(labs), None
    i = rng.choice(cand)
    n = int(round((iv[i, 1] - iv[i, 0]) / unit))
    t = iv[i, 0] + rng.randint(1, n - 1) * unit
    niv = np.vstack([iv[:i], [[iv[i, 0], t], [t, iv[i, 1]]], iv[i + 1:]])
    nl = list(labs[:i]) + [labs[i], labs[i]] + list(labs[i + 1:])
    return niv, nl, float(t)


def run(tier, seed):
    me = import_mir_eval()
    rng = random.Random(seed)
    ev = Evidence(PROP, tier, seed)
    rep = Reporter(PROP)
    thorough = tier == "thorough"
    cfg = "MC_C12_T" if thorough else "MC_C12"
    res = tlc.run("MC_C12", cfg=cfg, timeout=3400, heap="8g")
    rows = res["rows"]["ROW"]
    ev.tlc(cfg, res, "stage machine + Split; invariants SplitInvariant, InRange, DurationConserved")
    if not rows:
        raise Machinery("no rows from " + cfg)
    n_split = 0
    for k, r in enumerate(rows):
        # every annotation pair stage by stage; the re-evaluations after a cut through evaluate() and,
        # for one in four (all in the thorough tier), stage by stage as well
        if r["pc"] == "evaluated" or thorough or k % 4 == 0:
            replay_row(me, r, rep)
        else:
            replay_eval_only(me, r, rep)
        n_split += r["pc"] == "done"
        ev.case((r["ref"], r["est"]), nontrivial=len(r["st"]["dur"]) >= 2)
    ev.cov["traces_validated_against_impl"] = len(rows)
    ev.cov["behaviours_with_split"] = n_split
    ev.sample({"model": cfg, "state": rows[len(rows) // 2]})

    log = RelLog()
    c, s, h = me.chord, me.segment, me.hierarchy
    for it in range(600 if thorough else 120):
        # weighted_accuracy: scale invariance, all ones, all zeros
        n = rng.randint(1, 8)
        cmpv = np.array([rng.choice([1.0, 0.0, -1.0]) for _ in range(n)])
        w = np.array([rng.choice([0.25, 0.5, 1.0, 2.0, 3.75]) for _ in range(n)])
        k = rng.choice([0.5, 2.0, 3.0, 0.1, 1.0 / w.sum(), 2.0 ** -30, 1e-9, 2.0 ** 20])       # incl. very small / large time units (seeded C12r6-B)
        log.add("close", "chord.weighted_accuracy", call(c.weighted_accuracy, cmpv, w), call(c.weighted_accuracy, cmpv, w * k),
                {"what": "weights rescaled", "comparisons": cmpv.tolist(), "weights": w.tolist(), "factor": k})
        if (cmpv >= 0).any():
            ones = np.where(cmpv >= 0, 1.0, -1.0)
            zeros = np.where(cmpv >= 0, 0.0, -1.0)
            for kk in (1.0, k):
                log.add("perfect", "chord.weighted_accuracy", call(c.weighted_accuracy, ones, w * kk), call(c.weighted_accuracy, ones, w * kk),
                        {"what": "all comparable comparisons are 1", "comparisons": ones.tolist(), "weights": (w * kk).tolist()}, opt=["is1"])
                log.add("perfect", "chord.weighted_accuracy", call(c.weighted_accuracy, zeros, w * kk), call(c.weighted_accuracy, zeros, w * kk),
                        {"what": "all comparable comparisons are 0", "comparisons": zeros.tolist(), "weights": (w * kk).tolist()}, opt=["is0"])
        # chord.evaluate under splits at fine cut points (also durations such that weights sum to 1)
        ri, rl, ei, el = gen.gen_chord_pair(rng, rng.choice(["random", "random", "duplicates"]))
        if rng.random() < 0.3:
            scale = 1.0 / (ri.max() - ri.min())
            ri, ei = (ri - ri.min()) * scale, (ei - ri.min()) * scale
        base = call(c.evaluate, ri, rl, ei, el)
        for side in ("ref", "est"):
            if side == "ref":
                ni, nl, t = split_annotation(rng, ri, rl, unit=(ri.max() - ri.min()) / 64.0, near=np.unique(ei).tolist())
                b = call(c.evaluate, ni, nl, ei, el)
            else:
                ni, nl, t = split_annotation(rng, ei, el, unit=(ri.max() - ri.min()) / 64.0, near=np.unique(ri).tolist())
                b = call(c.evaluate, ri, rl, ni, nl)
            if t is not None:
                log.add("close", "chord.evaluate", base, b, {"what": "split " + side, "t": t, "ref_intervals": ri.tolist(), "ref_labels": rl,
                                                            "est_intervals": ei.tolist(), "est_labels": el})
        # the estimate starts before the reference and one of its intervals straddles the reference's start: cutting that
        # interval inside the reference's span (same label on both pieces) changes nothing
        if it % 4 == 0:
            r0 = rng.choice([1.0, 2.0])
            xri = np.array([[r0, r0 + 1.0], [r0 + 1.0, r0 + 2.5]])
            xrl = [rng.choice(["C:maj", "G:min", "A:7"]), rng.choice(["F:maj", "N", "D:min7"])]
            xei = np.array([[r0 - 0.75, r0 + 0.5], [r0 + 0.5, r0 + 1.75], [r0 + 1.75, r0 + 2.5]])
            xel = [xrl[0], rng.choice(["C:maj", "F:maj"]), xrl[1]]
            cutp = r0 + rng.choice([0.125, 0.25, 0.375])
            xei2 = np.vstack([[[xei[0, 0], cutp], [cutp, xei[0, 1]]], xei[1:]])
            log.add("close", "chord.evaluate", call(c.evaluate, xri, xrl, xei, xel), call(c.evaluate, xri, xrl, xei2, [xel[0]] + xel),
                    {"what": "split est", "t": cutp, "family": "interval straddling the reference start", "ref_intervals": xri.tolist(), "ref_labels": xrl,
                     "est_intervals": xei.tolist(), "est_labels": xel})
        # frame-based segment scores under splits
        si, sl, ti, tl = gen.gen_segment_pair(rng, rng.choice(["random", "random", "duplicates", "disjoint"]))
        fs = rng.choice([0.25, 0.5, 1.0])
        for name in ("pairwise", "rand_index", "ari", "mutual_information", "nce", "vmeasure"):
            fn = getattr(s, name)
            base = call(fn, si, sl, ti, tl, frame_size=fs)
            ni, nl, t = split_annotation(rng, si, sl)
            if t is not None:
                log.add("same", "segment." + name, base, call(fn, ni, nl, ti, tl, frame_size=fs),
                        {"what": "split ref", "t": t, "frame_size": fs, "ref_intervals": si.tolist(), "ref_labels": sl,
                         "est_intervals": ti.tolist(), "est_labels": tl})
            ni, nl, t = split_annotation(rng, ti, tl)
            if t is not None:
                log.add("same", "segment." + name, base, call(fn, si, sl, ni, nl, frame_size=fs),
                        {"what": "split est", "t": t, "frame_size": fs, "ref_intervals": si.tolist(), "ref_labels": sl,
                         "est_intervals": ti.tolist(), "est_labels": tl})
        # hierarchy L-measure under splits of one level
        hri, hrl, hei, hel = gen.gen_hierarchy(rng, "random")
        fs = rng.choice([0.25, 0.5, 1.0])
        base = call(h.lmeasure, hri, hrl, hei, hel, frame_size=fs)
        lv = rng.randrange(len(hri))
        ni, nl, t = split_annotation(rng, hri[lv], hrl[lv])
        if t is not None:
            hri2, hrl2 = list(hri), list(hrl)
            hri2[lv], hrl2[lv] = ni, nl
            log.add("same", "hierarchy.lmeasure", base, call(h.lmeasure, hri2, hrl2, hei, hel, frame_size=fs),
                    {"what": "split ref level %d" % lv, "t": t, "frame_size": fs, "ref_intervals": [x.tolist() for x in hri], "ref_labels": hrl,
                     "est_intervals": [x.tolist() for x in hei], "est_labels": hel})
        lv = rng.randrange(len(hei))
        ni, nl, t = split_annotation(rng, hei[lv], hel[lv])
        if t is not None:
            hei2, hel2 = list(hei), list(hel)
            hei2[lv], hel2[lv] = ni, nl
            log.add("same", "hierarchy.lmeasure", base, call(h.lmeasure, hri, hrl, hei2, hel2, frame_size=fs),
                    {"what": "split est level %d" % lv, "t": t, "frame_size": fs, "ref_intervals": [x.tolist() for x in hri], "ref_labels": hrl,
                     "est_intervals": [x.tolist() for x in hei], "est_labels": hel})
    # the repository's chord and segment fixtures (real annotations, hundreds of intervals, arbitrary decimal times): cut
    # intervals at their midpoints - chord.evaluate (through its own alignment) and the labelling entries of
    # segment.evaluate must not notice
    def cut(iv, labs, ks):
        rows, nl = [], []
        for k_, (a_, b_) in enumerate(iv.tolist()):
            if k_ in ks and b_ - a_ > 1e-3:
                m_ = 0.5 * (a_ + b_)
                rows += [[a_, m_], [m_, b_]]
                nl += [labs[k_], labs[k_]]
            else:
                rows.append([a_, b_])
                nl.append(labs[k_])
        return np.array(rows), nl
    n_real = 0
    for nm, (ri, rl, ei, el) in realdata.pairs(me, "chord", None if thorough else 3):
        base = call(c.evaluate, ri, rl, ei, el)
        for side in ("ref", "est"):
            iv, labs = (ri, rl) if side == "ref" else (ei, el)
            ks = sorted(rng.sample(range(len(iv)), min(5, len(iv))))
            ni, nl = cut(iv, labs, ks)
            b = call(c.evaluate, ni, nl, ei, el) if side == "ref" else call(c.evaluate, ri, rl, ni, nl)
            n_real += 1
            log.add("close", "chord.evaluate", base, b, {"what": "split " + side, "fixture": "chord/" + nm, "cut_intervals": ks})
    lab_only = lambda d: [float(v) for k2, v in d.items() if not (k2.startswith(("Precision@", "Recall@", "F-measure@")) or "deviation" in k2)]  # noqa
    for nm, (ri, rl, ei, el) in realdata.pairs(me, "segment", None if thorough else 3):
        a2 = call(lambda: lab_only(s.evaluate(ri, rl, ei, el)))
        for side in ("ref", "est"):
            iv, labs = (ri, rl) if side == "ref" else (ei, el)
            ks = sorted(rng.sample(range(len(iv)), min(3, len(iv))))
            ni, nl = cut(iv, labs, ks)
            # only the frame-labelling entries are claimed (a cut adds a boundary, so detection / deviation change)
            b2 = call(lambda: lab_only(s.evaluate(ni, nl, ei, el))) if side == "ref" else call(lambda: lab_only(s.evaluate(ri, rl, ni, nl)))
            n_real += 1
            log.add("same", "segment.evaluate[labelling]", a2, b2, {"what": "split " + side, "fixture": "segment/" + nm, "cut_intervals": ks})
    ev.cov["repository_fixture_splits"] = n_real
    badl, stt = log.judge()
    ev.tlc("Trace_Rel", stt, "split / rescale relations on recorded outcome pairs")
    ev.cov["traces_validated_against_impl"] += len(log.events)
    for fn, rel, clause, meta, a, b in badl:
        tag = rel + ":" + meta.get("what", "").split(" level")[0] + "/" + clause.split("@")[0]
        if fn == "chord.weighted_accuracy" and b[0] == "ok" and any(x != x for x in (a[1] + b[1])):
            tag = "comparable-weight-zero"
        rep.violation(fn, tag, {"relation": rel, "failing": clause, "input": meta, "a": a, "b": b})
    for e in log.events:
        ev.case(("rel", e["fn"], str(log.meta[e["tid"]][2])[:300]), nontrivial=e["aexc"] == "ok")
    ev.cov["rule"] = ("every state of the MC_C12 stage machine (all annotation pairs, all single cuts) replayed stage by stage; "
                      "seeded rescale/split relations on weighted_accuracy, chord.evaluate, segment frame scores and "
                      "hierarchy.lmeasure judged by Trace_Rel; distinct = distinct input; non-trivial = >= 2 merged intervals")
    ev.cov["exhaustive"] = True
    ev.d["assumptions"] = ["time unit 0.25 s in the model; fine cut points at 1/16 s (off the frame grid) in the relations"]
    code = rep.finish()
    ev.write(violations=len(rep.violations))
    return code


def replay(path):
    v = json.load(open(path))
    print(json.dumps(v, indent=1)[:3000])
    return run("quick", 0)
