"""C18 - multipitch error accounting is exhaustive and consistent.

Multipitch.tla defines resampling (nearest estimate frame, empty outside the estimate's range), the
per-frame true positives as maximum matchings (raw and chroma-wrapped) and the 14 scores; MC_C18
enumerates every pair of small ragged inputs x time-base modes (identical / estimate grid shifted
late / early, never at a nearest-neighbour tie) x windows and checks E_tot = E_sub + E_miss + E_fa,
errors >= 0, Acc <= min(P, R), TP <= min(#ref, #est), chroma TP >= raw TP.  Every row is replayed into
resample_multipitch, compute_num_true_positives, metrics and evaluate and compared with the exact
rationals; the same identities are then checked by TLC (Trace_C18) on the outcomes of larger seeded
inputs recorded from the code."""
import json
import random

import numpy as np

from .. import tlc, trace, gen, realdata
from ..common import Evidence, Reporter, import_mir_eval, Machinery, frac
from ..relations import enc

PROP = "C18"
WIN = {1: 0.74, 2: 1.24}
KEYS = ["Precision", "Recall", "Accuracy", "Substitution Error", "Miss Error", "False Alarm Error", "Total Error",
        "Chroma Precision", "Chroma Recall", "Chroma Accuracy", "Chroma Substitution Error", "Chroma Miss Error",
        "Chroma False Alarm Error", "Chroma Total Error"]


def hz(frame):
    return np.array([440.0 * 2.0 ** (u / 24.0) for u in frame], dtype=float)


def run(tier, seed):
    me = import_mir_eval()
    rng = random.Random(seed)
    ev = Evidence(PROP, tier, seed)
    rep = Reporter(PROP)
    thorough = tier == "thorough"
    mp = me.multipitch
    cfg = "MC_C18_T" if thorough else "MC_C18"
    res = tlc.run("MC_C18", cfg=cfg, timeout=3400, heap="8g")
    rows = res["rows"]["ROW"]
    if len(rows) * 2 != res["distinct"]:
        raise Machinery("%s: %d rows for %d states" % (cfg, len(rows), res["distinct"]))
    ev.tlc(cfg, res, "invariants Identities (accounting, bounds, chroma >= raw), NoTies")
    for k, r in enumerate(rows):
        if (not thorough and (k + seed) % 2) or (thorough and r["org"] and (k + seed) % 2):
            continue                   # quick: every second row; thorough: all rows at the origin, every second far-origin row
        o = r["out"]
        rt, et = np.array(o["rt"], dtype=float) * 0.01, np.array(o["et"], dtype=float) * 0.01
        rf, ef = [hz(f) for f in r["rfr"]], [hz(f) for f in r["efr"]]
        w = WIN[r["w"]]
        detail = {"origin": r["org"], "ref_times": rt.tolist(), "est_times": et.tolist(), "ref_units": r["rfr"], "est_units": r["efr"], "window": w, "mode": r["mode"]}
        want = [o["raw"][x] for x in ("p", "r", "acc", "esub", "emiss", "efa", "etot")] + \
               [o["chroma"][x] for x in ("p", "r", "acc", "esub", "emiss", "efa", "etot")]
        want = [float(frac(x)) for x in want]
        try:
            if r["mode"] != "same":
                al = mp.resample_multipitch(et, ef, rt)
                got_al = [sorted(int(round(24 * np.log2(x / 440.0))) for x in f) for f in al]
                if got_al != [sorted(f) for f in o["aligned"]]:
                    rep.violation("multipitch.resample_multipitch", r["mode"] + "/frames-differ", dict(detail, got=got_al, expected=o["aligned"]))
                    continue
            else:
                al = ef
            rm, em = mp.frequencies_to_midi(rf), mp.frequencies_to_midi(al)
            tp = mp.compute_num_true_positives(rm, em, window=w)
            tpc = mp.compute_num_true_positives(mp.midi_to_chroma(rm), mp.midi_to_chroma(em), window=w, chroma=True)
            if [int(x) for x in tp] != o["raw"]["tp"] or [int(x) for x in tpc] != o["chroma"]["tp"]:
                rep.violation("multipitch.compute_num_true_positives", "count-differs",
                              dict(detail, got=[tp.tolist(), tpc.tolist()], expected=[o["raw"]["tp"], o["chroma"]["tp"]]))
                continue
            got = [float(x) for x in mp.metrics(rt, rf, et, ef, window=w)]
            d = mp.evaluate(rt, rf, et, ef, window=w)
            if list(d.keys()) != KEYS or [float(v) for v in d.values()] != got:
                rep.violation("multipitch.evaluate", "differs-from-metrics", dict(detail, got=list(d.items())))
            bad = [i for i, (g, x) in enumerate(zip(got, want)) if abs(g - x) > 1e-9]
            if bad or len(got) != 14:
                rep.violation("multipitch.metrics", r["mode"] + "/value-differs@" + KEYS[bad[0]] if bad else "arity",
                              dict(detail, got=got, expected=want))
        except Exception as ex:  # noqa
            rep.violation("multipitch.metrics", "raised-" + type(ex).__name__, dict(detail, message=str(ex)[:200]))
        ev.case((r["rfr"], r["efr"], r["w"], r["mode"], r["org"]), nontrivial=0 < sum(o["raw"]["tp"]) and o["raw"]["etot"][0] > 0)
    ev.sample({"model": cfg, "row": rows[len(rows) // 2]})
    # larger seeded inputs: identities judged by TLC on the recorded outcomes
    events = []
    for it in range(1500 if thorough else 300):
        t, rf, te, ef = gen.gen_multipitch(rng, rng.choice(gen.SHAPES + ["octaves", "crowded", "crowded_ref"]))
        w = rng.choice([0.5, 0.74, 1.0, 0.25])
        try:
            m = [float(x) for x in mp.metrics(t, rf, te, ef, window=w)]
            al = ef if (len(t) == len(te) and np.allclose(t, te)) else mp.resample_multipitch(te, ef, t)
            rm, em = mp.frequencies_to_midi(rf), mp.frequencies_to_midi(al)
            tp = [int(x) for x in mp.compute_num_true_positives(rm, em, window=w)]
            tpc = [int(x) for x in mp.compute_num_true_positives(mp.midi_to_chroma(rm), mp.midi_to_chroma(em), window=w, chroma=True)]
            events.append({"tid": len(events) + 1, "m": [enc(x) for x in m], "tp": tp, "tpc": tpc, "nr": [len(x) for x in rf], "ne": [len(x) for x in al]})
        except Exception as ex:  # noqa
            rep.violation("multipitch.metrics", "raised-" + type(ex).__name__, {"message": str(ex)[:200]})
    # windows of the repository's multipitch fixtures (real transcriptions, differing time bases)
    n_real = 0
    for nm, (rt, rf, et, ef) in realdata.pairs(me, "multipitch", None if thorough else 3):
        i0 = rng.randrange(0, max(1, len(rt) - 300))
        j0 = int(np.searchsorted(et, rt[i0]))
        t, rf_, te, ef_ = rt[i0:i0 + 300], rf[i0:i0 + 300], et[j0:j0 + 320], ef[j0:j0 + 320]
        for w in (0.5, 0.25):
            try:
                m = [float(x) for x in mp.metrics(t, rf_, te, ef_, window=w)]
                al = ef_ if (len(t) == len(te) and np.allclose(t, te)) else mp.resample_multipitch(te, ef_, t)
                rm, em = mp.frequencies_to_midi(rf_), mp.frequencies_to_midi(al)
                tp = [int(x) for x in mp.compute_num_true_positives(rm, em, window=w)]
                tpc = [int(x) for x in mp.compute_num_true_positives(mp.midi_to_chroma(rm), mp.midi_to_chroma(em), window=w, chroma=True)]
                events.append({"tid": len(events) + 1, "m": [enc(x) for x in m], "tp": tp, "tpc": tpc, "nr": [len(x) for x in rf_], "ne": [len(x) for x in al]})
                n_real += 1
            except Exception as ex:  # noqa
                rep.violation("multipitch.metrics", "raised-" + type(ex).__name__, {"message": str(ex)[:200], "fixture": nm})
    ev.cov["repository_fixture_windows"] = n_real
    rejects, st = trace.validate_par("Trace_C18", events)
    ev.tlc("Trace_C18", st, "accounting identities on recorded outcomes of larger inputs")
    for rj in rejects:
        rep.violation("multipitch.metrics", "identity/" + rj["clause"], {"event": events[rj["tid"] - 1]})
    ev.cov["traces_validated_against_impl"] = len(events) + (len(rows) if thorough else len(rows) // 2)
    ev.cov["rule"] = ("every row of MC_C18 (half of them in the quick tier) replayed into resample/compute_num_true_positives/"
                      "metrics/evaluate and compared with exact rationals; seeded larger inputs judged by Trace_C18; distinct = "
                      "distinct input; non-trivial = some hit and some error")
    ev.cov["exhaustive"] = True
    ev.d["assumptions"] = ["pitches on a half-semitone lattice, windows 0.74 / 1.24 semitones (no pitch difference on a threshold)",
                           "estimate grids are offset so that no reference time is equidistant from two estimate times"]
    code = rep.finish()
    ev.write(violations=len(rep.violations))
    return code


def replay(path):
    v = json.load(open(path))
    print(json.dumps(v, indent=1)[:3000])
    return run("quick", 0)
