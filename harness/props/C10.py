"""C10 - chord labels: total parsing, sound encoding, split/join round trip.

spec -> code : MC_C10 enumerates grammar-derivable labels (ASTs: every root spelling, every
               shorthand x every single degree edit x basses, pairs of degree edits) and their
               specified encodings under the four (reduce, strict) settings; rendered to strings and
               run through validate_chord_label / split / join / encode / encode_many.
code -> spec : seeded character-level mutations of those strings plus hostile strings (unicode,
               control characters, whitespace, trailing newline) are run through the same functions;
               the outcome classes and values are judged by Trace_C10, where the recogniser
               (Chord!Parse over the lexed tokens) decides acceptance and Chord!Encode the value."""
import json
import random

import numpy as np

from .. import tlc, trace, realdata
from ..common import Evidence, Reporter, import_mir_eval, Machinery

PROP = "C10"
WORDS = sorted(["maj", "min", "dim", "aug", "sus2", "sus4", "maj6", "min6", "maj7", "min7", "dim7", "hdim7", "minmaj7",
                "aug7", "maj9", "min9", "maj11", "min11", "maj13", "min13"], key=len, reverse=True)
SINGLE = set("ABCDEFGNXb#:(),*/")


def render(toks):
    return "".join(t[1:] if (t[0] in "wd" and len(t) > 1) else t for t in toks)


def lex(s):
    toks, i = [], 0
    while i < len(s):
        c = s[i]
        w = next((w for w in WORDS if s.startswith(w, i)), None)
        if w:
            toks.append("w" + w); i += len(w)
        elif c in "0123456789":
            j = i
            while j < len(s) and s[j] in "0123456789":
                j += 1
            toks.append("d" + s[i:j]); i = j
        elif c in SINGLE:
            toks.append(c); i += 1
        else:
            toks.append("?"); i += 1
    return toks


def outcome(f):
    """(class, value) of a call: class is 'ok' or the exception class name"""
    try:
        return "ok", f()
    except Exception as ex:  # noqa
        return type(ex).__name__, None


def enc_rec(cls, val):
    if cls != "ok":
        return {"exc": cls, "root": 0, "bits": [], "bass": 0}
    r, b, ba = val
    return {"exc": "ok", "root": int(r), "bits": [int(x) for x in np.asarray(b).tolist()], "bass": int(ba)}


def observe(me, s):
    c = me.chord
    ev = {"toks": lex(s), "s": s}
    ev["validate"] = outcome(lambda: c.validate_chord_label(s))[0]
    ev["split"] = outcome(lambda: c.split(s))[0]
    for name, r, st in (("ff", False, False), ("tf", True, False), ("fs", False, True), ("ts", True, True)):
        ev[name] = enc_rec(*outcome(lambda: c.encode(s, reduce_extended_chords=r, strict_bass_intervals=st)))
    ev["rt"] = enc_rec(*outcome(lambda: c.encode(c.join(*c.split(s)))))
    ev["rtr"] = enc_rec(*outcome(lambda: c.encode(c.join(*c.split(s, reduce_extended_chords=True)),
                                                  reduce_extended_chords=True)))

    def many():
        r, b, ba = c.encode_many([s, "N", s])
        if not (r[0] == r[2] and ba[0] == ba[2] and (b[0] == b[2]).all() and r[1] == -1 and ba[1] == -1):
            raise AssertionError("encode_many rows inconsistent")
        return r[0], b[0], ba[0]
    ev["many"] = enc_rec(*outcome(many))
    return ev


HOSTILE = ["", " ", "C ", " C", "C\n", "C:maj\n", "\nC", "c", "c:maj", "C:MAJ", "H", "H:maj", "C:", "C:()", "C:(", "C:maj(",
           "C:maj()", "C:maj(3", "C:maj3)", "C/", "C//3", "C:maj/", "C:maj/0", "C:maj/14", "C:maj(0)", "C:maj(14)",
           "C:maj(03)", "Cb#", "C#b:maj", "C::maj", "C:maj:min", "NN", "N:maj", "X:maj", "N/3", "C(3)", "C(*3)",
           "C:maj(3,)", "C:maj(,3)", "C:maj(3,,5)", "C:maj(**3)", "C:maj(*)", "C:maj/b", "C:maj/#", "C:b9", "C:#11",
           "C:maj7#11", "C:maj 7", "C :maj", "C:maj\t", "♭C", "C♯", "C:maj ", "С:maj", "C:ｍaj",
           "C:maj(٣)", "C:maj/٣", "C:1", "C:5", "C:11", "C:13", "C:111", "C:aug7", "C:maj11", "C:min13(*b13)",
           "C:maj(*3)/3", "C:(*3)", "C:(b3,5)", "C:(1)", "Bbb:dim7/bb7", "F##:hdim7(*b5)/b5", "C:9(9,*9)", "C:13(*13,13)",
           "G:min(*8)/b3", "C:maj(*#7)/5", "E:sus4(*bb9)/4", "C:7(#9)", "C:maj(b10)", "A:min11(*b3,#4)/5", "C:maj/1",
           "C:maj(1,1,1)", "C:maj(3,3)", "C:maj(12)", "C:maj(b13)/b13", "C:maj(#13)", "D:min7/b7", "C:maj/13", "C:maj/b2"]
ALPH = "ABCDEFGNXb#:(),*/0123456789 \n\tmajinsudgh7"


def mutate(rng, s):
    k = rng.randint(0, 5)
    pos = rng.randint(0, len(s)) if s else 0
    ch = rng.choice(ALPH) if rng.random() < 0.92 else rng.choice(["♭", "é", "٣", "\x00", " ", "\U0001d11e"])
    if k == 0 and s:
        p = rng.randrange(len(s)); return s[:p] + s[p + 1:]
    if k == 1:
        return s[:pos] + ch + s[pos:]
    if k == 2 and s:
        p = rng.randrange(len(s)); return s[:p] + ch + s[p + 1:]
    if k == 3 and len(s) > 1:
        p = rng.randrange(len(s) - 1); return s[:p] + s[p + 1] + s[p] + s[p + 2:]
    if k == 4:
        return s + rng.choice(["\n", " ", "/", ")", "(", ":", "7", "b"])
    toks = lex(s)                      # token-level: duplicate or drop a token
    if toks:
        p = rng.randrange(len(toks))
        toks = toks[:p] + ([toks[p], toks[p]] if rng.random() < 0.5 else []) + toks[p + 1:]
    return render([t for t in toks if t != "?"])


def run(tier, seed):
    me = import_mir_eval()
    rng = random.Random(seed)
    ev = Evidence(PROP, tier, seed)
    rep = Reporter(PROP)
    thorough = tier == "thorough"
    c = me.chord
    labels = []
    fams = [("roots", "MC_C10_roots"), ("quals", "MC_C10_quals_T" if thorough else "MC_C10_quals"),
            ("pairs", "MC_C10_pairs_T" if thorough else "MC_C10_pairs")]
    for fam, cfg in fams:
        res = tlc.run("MC_C10", cfg=cfg, timeout=3400, heap="8g")
        rows = res["rows"]["ROW"]
        if len(rows) * 2 != res["distinct"]:
            raise Machinery("%s: %d rows for %d states" % (cfg, len(rows), res["distinct"]))
        ev.tlc(cfg, res, "invariants EncodingSound, StrictOnlyRejects, ParseInverts")
        for r in rows:
            s = render(r["out"]["toks"])
            if lex(s) != r["out"]["toks"]:
                raise Machinery("renderer/lexer disagree on %r" % s)
            labels.append(s)
            got = observe(me, s)
            exp = r["out"]
            bad = None
            if got["validate"] != "ok" or got["split"] != "ok":
                bad = "grammatical-label-rejected"
            else:
                for name in ("ff", "tf", "fs", "ts"):
                    e, g = exp[name], got[name]
                    if g["exc"] not in ("ok", "InvalidChordException"):
                        bad = "encode:raised-other-exception"
                    elif e["ok"] != (g["exc"] == "ok"):
                        bad = "encode:outcome-differs[%s]" % name
                    elif e["ok"] and (e["root"], e["bits"], e["bass"]) != (g["root"], g["bits"], g["bass"]):
                        bad = "encode:encoding-differs[%s]" % name
                    if bad:
                        break
                if not bad and r["ast"]["kind"] != "X":
                    for a, b in (("ff", "rt"), ("tf", "rtr")):
                        if got[a]["exc"] == "ok" and got[b] != got[a]:
                            bad = "roundtrip:encoding-differs[%s]" % a
                if not bad and got["many"] != got["ff"]:
                    bad = "encode_many:differs-from-encode"
            if bad:
                rep.violation("chord.encode", bad, {"label": s, "expected": exp, "got": {k: got[k] for k in
                                                                                       ("validate", "ff", "tf", "fs", "ts", "rt", "rtr", "many")}})
            ev.case(("ast", s), nontrivial=r["ast"]["kind"] == "chord" and (len(r["ast"]["degs"]) > 0 or r["ast"]["bass"] != []))
        ev.sample({"model": cfg, "label": labels[-1], "spec": rows[-1]["out"]["ff"]})

    # code -> spec: hostile and mutated strings judged by the TLA+ recogniser + encoder
    strings = list(HOSTILE)
    base = rng.sample(labels, min(len(labels), 6000 if thorough else 1500))
    for s in base:
        m = mutate(rng, s)
        strings.append(m)
        if rng.random() < 0.3:
            strings.append(mutate(rng, m))
    strings += ["".join(rng.choice(ALPH) for _ in range(rng.randint(1, 7))) for _ in range(3000 if thorough else 600)]
    # the real chord vocabulary of the repository's annotation fixtures (tests/data/chord): every distinct label
    real_labels = sorted({lab for _, (ri, rl, ei, el) in realdata.pairs(me, "chord") for lab in list(rl) + list(el)})
    strings += real_labels
    ev.cov["labels_from_repository_fixtures"] = len(real_labels)
    strings = list(dict.fromkeys(strings))
    events = []
    for k, s in enumerate(strings):
        o = observe(me, s)
        o["tid"] = k + 1
        del o["s"]
        events.append(o)
    rejects, st = trace.validate_par("Trace_C10", events)
    ev.tlc("Trace_C10", st, "acceptance by the TLA+ recogniser, values by the TLA+ encoder")
    ev.cov["traces_validated_against_impl"] = len(events)
    n_acc = sum(1 for e in events if e["validate"] == "ok")
    ev.cov["fuzz_strings"] = {"total": len(events), "accepted_by_code": n_acc}
    for rj in rejects:
        s = strings[rj["tid"] - 1]
        rep.violation("chord." + rj["clause"].split(":")[0].split("[")[0].replace("roundtrip", "split/join"),
                      rj["class"] + "/" + rj["clause"], {"label_repr": repr(s), "label": s, "observed": events[rj["tid"] - 1]})
    for s, e in zip(strings, events):
        ev.case(("str", s), nontrivial=len(e["toks"]) >= 2)
    ev.sample({"fuzz": repr(strings[len(HOSTILE) + 5]), "tokens": events[len(HOSTILE) + 5]["toks"],
               "validate": events[len(HOSTILE) + 5]["validate"]})
    ev.cov["rule"] = ("every AST of the three MC_C10 families rendered and checked against the specified encodings (4 flag "
                      "settings, split/join round trip, encode_many); hostile + seeded mutated strings judged by Trace_C10. "
                      "distinct = distinct string; non-trivial = label with degrees or bass / string of >= 2 tokens")
    ev.cov["exhaustive"] = True
    ev.d["assumptions"] = ["the harness lexer maps characters to the token alphabet (longest shorthand word first, ASCII digit "
                           "runs as one token, anything else '?'); renderer and lexer are checked to be inverse on every row",
                           "X is exempt from the split/join round trip (join('X','maj') is not a label)"]
    code = rep.finish()
    ev.write(violations=len(rep.violations))
    return code


def replay(path):
    me = import_mir_eval()
    v = json.load(open(path))
    s = v["detail"].get("label")
    o = observe(me, s)
    o["tid"] = 1
    del o["s"]
    rejects, _ = trace.validate_par("Trace_C10", [o], workers=1)
    print(repr(s), json.dumps(o)[:1500])
    if rejects:
        print("VIOLATION property=C10 replay=%s (%s)" % (path, rejects[0]["clause"]))
        return 1
    print("HOLDS (by the trace specification)")
    return 0
