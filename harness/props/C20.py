"""C20 - annotation files load back to exactly what they encode.

IO.tla is the per-line machine of load_delimited (comment / row / too few fields / extra fields /
unparsable number / blank) with the loaders' column schemas and the single-data-line rule of key and
tempo files; MC_C20 enumerates every file of <= 3 lines (4 thorough) over the line kinds x the eight
loaders and checks soundness of the machine.  Each model file is rendered to text with concrete
seeded values - finite floats incl. exponents, negatives, subnormals; labels with internal blanks,
tabs, unicode and (for ',' files) commas - under four delimiter classes, loaded from a path AND from
a file object, and compared: structure, order, bit-identical floats, exact strings, ValueError naming
the row of the first offending line, warnings (not errors) for convention violations.  Ragged time
series and pattern files are written from seeded structures and read back."""
import io as _io
import json
import math
import os
import random
import shutil
import struct
import warnings

import numpy as np

from .. import tlc
from ..common import Evidence, Reporter, import_mir_eval, Machinery

PROP = "C20"
FLOATS = ["0.0", "1.5", "-2.25", "3.141592653589793", "1e-310", "-4.9e-324", "1.7976931348623157e+308", "6.02e23", "-1E-7",
          "123456789.12345679", "0.1", "+7.5", "  ".strip() or "2", "1e5", ".5", "5.", "-0.0", "3e0"]
LABELS = ["verse", "A", "chorus_1", "N", "C:maj", "é-label", "節", "x/y", "#hash-inside", "a.b"]
SPACED = ["verse  two", "intro (slow)", "a\tb", "C:maj  /  3", "new section", "ünï cödé label"]
COMMA_SPACED = ["snare, rimshot", "a,b,c", " leading blank", "x , y"]
KEYS1 = ["C", "c#", "Db", "F#", "bb", "X"]
KEYS2 = ["major", "minor", "other"]


def bits(x):
    return struct.pack("<d", float(x))


class Renderer:
    def __init__(self, rng, delim):
        self.rng, self.delim = rng, delim
        self.sep = {"space": " ", "blanks": "   \t ", "tab": "\t", "comma": ","}[delim]

    def fl(self):
        return self.rng.choice(FLOATS)

    def line(self, kind, loader, sc):
        """-> (text, expected parsed fields or None)"""
        r = self.rng
        if kind == "comment":
            return r.choice(["# a comment", "#", "## 1.0 2.0", "#\t"]), None
        if kind == "blank":
            return r.choice(["", "   ", "\t"]), None
        fields, exp = [], []
        for j, c in enumerate(sc):
            if c == "f":
                if loader == "tempo" and j == 2:
                    t = r.choice(["0.0", "0.25", "1", "0.5", "1.0"])
                else:
                    t = self.fl()
                fields.append(t); exp.append(float(t))
            else:
                if loader == "key":
                    t = r.choice(KEYS1) if j == 0 else r.choice(KEYS2)
                else:
                    t = r.choice(LABELS)
                fields.append(t); exp.append(t)
        if kind == "spacedlabel" and sc[-1] == "s" and loader != "key":
            t = r.choice(SPACED + (COMMA_SPACED if self.delim == "comma" else []))
            if self.delim in ("space", "blanks", "tab"):
                t = t.strip()
            fields[-1] = t; exp[-1] = t if self.delim != "comma" else t
        if kind == "short":
            fields = fields[:-1]
        if kind == "long":
            extra = r.choice(["extra", "9.5"])
            fields.append(extra)
            if sc[-1] == "s":
                exp[-1] = exp[-1] + self.sep + extra
        if kind == "badnum":
            idx = [j for j, c in enumerate(sc) if c == "f"]
            if idx:
                fields[r.choice(idx)] = r.choice(["abc", "1.0.0", "--1", "1,5" if self.delim != "comma" else "x", "NaN?"])
        text = self.sep.join(fields)
        if self.delim != "comma" and r.random() < 0.3:
            text = " " + text + "  "          # leading / trailing blanks are stripped
        return text, exp


def load_both(me, loader, text, delim, scratch, comment=None, extra=None):
    """load from a StringIO and from a path; returns list of (source, outcome)"""
    fn = getattr(me.io, "load_" + loader)
    kw = {"delimiter": ","} if delim == "comma" else {}
    kw.update(extra or {})
    if comment is not None:
        kw["comment"] = comment
    outs = []
    path = os.path.join(scratch, "f.txt")
    with open(path, "w", encoding="utf-8", newline="") as f:
        f.write(text)
    for src in ("file-object", "path"):
        with warnings.catch_warnings(record=True) as w:
            warnings.simplefilter("always")
            try:
                if src == "path":
                    res = fn(path, **kw)
                else:
                    res = fn(_io.StringIO(text), **kw)
                outs.append((src, ("ok", res, len(w))))
            except Exception as ex:  # noqa
                outs.append((src, (type(ex).__name__, str(ex), len(w))))
    return outs


def structure(loader, rows):
    """expected return value from the expected rows (list of field lists)"""
    cols = list(zip(*rows)) if rows else None
    if loader == "events":
        return [np.array([r[0] for r in rows])]
    if loader == "labeled_events":
        return [np.array([r[0] for r in rows]), [r[1] for r in rows]]
    if loader == "intervals":
        return [np.array([[r[0], r[1]] for r in rows]).reshape(-1, 2) if rows else np.array([[], []]).T]
    if loader == "labeled_intervals":
        return [np.array([[r[0], r[1]] for r in rows]).reshape(-1, 2) if rows else np.array([[], []]).T, [r[2] for r in rows]]
    if loader == "valued_intervals":
        return [np.array([[r[0], r[1]] for r in rows]).reshape(-1, 2) if rows else np.array([[], []]).T, np.array([r[2] for r in rows])]
    if loader == "time_series":
        return [np.array([r[0] for r in rows]), np.array([r[1] for r in rows])]
    if loader == "key":
        return ["%s %s" % (rows[0][0], rows[0][1])]
    if loader == "tempo":
        return [np.array([rows[0][0], rows[0][1]]), rows[0][2]]


def same_value(a, b):
    if isinstance(b, np.ndarray) or isinstance(a, np.ndarray):
        a, b = np.asarray(a, dtype=float), np.asarray(b, dtype=float)
        return a.shape == b.shape and a.tobytes() == b.tobytes()
    if isinstance(b, float):
        return isinstance(a, float) and bits(a) == bits(b)
    if isinstance(b, list):
        return isinstance(a, list) and len(a) == len(b) and all(type(x) is type(y) and x == y for x, y in zip(a, b))
    return type(a) is type(b) and a == b


def run(tier, seed):
    me = import_mir_eval()
    rng = random.Random(seed)
    ev = Evidence(PROP, tier, seed)
    rep = Reporter(PROP)
    thorough = tier == "thorough"
    res = tlc.run("MC_C20", cfg="MC_C20_T" if thorough else "MC_C20", timeout=3000)
    rows = res["rows"]["ROW"]
    if len(rows) * 2 != res["distinct"]:
        raise Machinery("MC_C20: %d rows for %d states" % (len(rows), res["distinct"]))
    ev.tlc("MC_C20", res, "per-line machine; invariant Sound")
    scratch = tlc.scratch_dir("c20_")
    schemas = {"events": "f", "labeled_events": "fs", "intervals": "ff", "labeled_intervals": "ffs", "valued_intervals": "fff",
               "time_series": "ff", "key": "ss", "tempo": "fff"}
    n = 0
    try:
        for r in rows:
            loader, sc = r["loader"], schemas[r["loader"]]
            for delim in (("space", "blanks", "tab", "comma") if thorough else (rng.choice(["space", "blanks"]), rng.choice(["tab", "comma"]))):
                R = Renderer(rng, delim)
                lines, exp_rows = [], []
                for pos, kind in enumerate(r["file"], 1):
                    text, fields = R.line(kind, loader, sc)
                    lines.append(text)
                    if pos in r["out"]["rows"]:
                        exp_rows.append(fields)
                nl = rng.choice(["\n", "\n", "\r\n"])
                # every line is terminated, except (sometimes) a last line that has visible content
                text = nl.join(lines) + (nl if (lines and (rng.random() < 0.8 or lines[-1].strip() == "")) else "")
                detail = {"loader": loader, "delimiter": delim, "text": text, "line_kinds": r["file"], "spec": r["out"]}
                for src, (cls, val, nw) in load_both(me, loader, text, delim, scratch):
                    n += 1
                    st = r["out"]["status"]
                    tag = None
                    if st == "error":
                        if cls != "ValueError":
                            tag = "malformed-row/" + ("returned-a-value" if cls == "ok" else "raised-" + cls)
                        elif (":%d:" % r["out"]["errrow"]) not in val:
                            tag = "malformed-row/error-does-not-name-the-row"
                    elif st == "error-lines":
                        if loader == "tempo" and not exp_rows:
                            if cls != "ValueError":
                                tag = "tempo-file-without-data-line/" + ("returned-a-value" if cls == "ok" else "raised-" + cls)
                        elif cls != "ValueError":
                            tag = "not-exactly-one-data-line/" + ("returned-a-value" if cls == "ok" else "raised-" + cls)
                    else:
                        if cls != "ok":
                            tag = "well-formed-file/raised-" + cls
                        else:
                            want = structure(loader, exp_rows)
                            got = list(val) if isinstance(val, tuple) else [val]
                            if len(got) != len(want) or not all(same_value(g, w) for g, w in zip(got, want)):
                                tag = "well-formed-file/value-differs"
                    if tag:
                        rep.violation("io.load_" + loader, tag, dict(detail, source=src, outcome=[cls, repr(val)[:300]]))
                ev.case((loader, r["file"], delim), nontrivial=len(r["file"]) >= 2)
        ev.sample({"model_row": rows[777], "rendered": detail["text"][:200]})
        # ---- pattern files: every file of the line machine MC_C20p, points written with distinct values
        resp = tlc.run("MC_C20p", cfg="MC_C20p_T" if thorough else "MC_C20p", timeout=3000)
        prow = resp["rows"]["ROW"]
        if len(prow) * 2 != resp["distinct"]:
            raise Machinery("MC_C20p: %d rows for %d states" % (len(prow), resp["distinct"]))
        ev.tlc("MC_C20p", resp, "pattern-file line machine; invariant Grouping (machine = definitional grouping)")
        for r in prow:
            lines, val = [], {}
            npat = nocc = 0
            for pos, kind in enumerate(r["file"], 1):
                if kind == "pattern":
                    npat += 1; lines.append("pattern%d" % npat)
                elif kind == "occurrence":
                    nocc += 1; lines.append("occurrence%d" % nocc)
                else:
                    val[pos] = (float(pos) * 0.25 + 100.0, float(40 + pos))
                    lines.append("%r, %r" % val[pos])
            text = "\n".join(lines) + ("\n" if lines else "")
            want = [[[val[p] for p in occ] for occ in pat] for pat in r["out"]]
            for src, (cls, got, nw) in load_both(me, "patterns", text, "space", scratch):
                n += 1
                if cls != "ok" or got != want:
                    rep.violation("io.load_patterns", "structure-differs", {"text": text, "line_kinds": r["file"], "source": src,
                                                                           "expected": want, "outcome": [cls, repr(got)[:300]]})
            ev.case(("patterns", r["file"]), nontrivial=len(r["out"]) >= 1)
        # ---- values written and read back: ragged time series, patterns, convention violations (warnings, not errors)
        for it in range(400 if thorough else 80):
            k = rng.randint(0, 5)
            times = [float(np.float64(rng.uniform(0, 100))) for _ in range(k)]
            vals = [[float(np.float64(10 ** rng.uniform(-3, 4))) for _ in range(rng.randint(0, 4))] for _ in range(k)]
            sep = rng.choice([" ", "\t", "  "])
            text = "".join(sep.join([repr(t)] + [repr(v) for v in vs]) + "\n" for t, vs in zip(times, vals))
            if rng.random() < 0.3:
                text = "# comment\n" + text
            for src, (cls, val, nw) in load_both(me, "ragged_time_series", text, "space", scratch):
                n += 1
                ok = cls == "ok" and same_value(val[0], np.array(times)) and len(val[1]) == k and \
                    all(same_value(a, np.array(b)) for a, b in zip(val[1], vals))
                if not ok:
                    rep.violation("io.load_ragged_time_series", "round-trip-differs", {"text": text, "source": src, "outcome": [cls, repr(val)[:300]]})
            # the documented value type: integer columns (dtype=int) come back exactly, also beyond 2**53, and a row whose
            # value is not an integer is malformed (ValueError naming the row)
            ivals = [[rng.choice([rng.randint(0, 127), 2 ** 53 + rng.randint(1, 99), -rng.randint(1, 10 ** 6)]) for _ in range(rng.randint(0, 3))] for _ in range(k)]
            text = "".join(sep.join([repr(t)] + [str(v) for v in vs]) + "\n" for t, vs in zip(times, ivals))
            for src, (cls, val, nw) in load_both(me, "ragged_time_series", text, "space", scratch, extra={"dtype": int}):
                n += 1
                ok = cls == "ok" and same_value(val[0], np.array(times)) and len(val[1]) == k and \
                    all(a.dtype.kind == "i" and a.tolist() == b for a, b in zip(val[1], ivals))
                if not ok:
                    rep.violation("io.load_ragged_time_series", "integer-values/round-trip-differs", {"text": text, "source": src, "dtype": "int", "outcome": [cls, repr(val)[:300]]})
            text2 = text + "1.5 60 60.5\n"
            for src, (cls, val, nw) in load_both(me, "ragged_time_series", text2, "space", scratch, extra={"dtype": int}):
                n += 1
                if cls != "ValueError" or (":%d" % k) not in str(val):
                    rep.violation("io.load_ragged_time_series", "integer-values/malformed-row/" + ("returned-a-value" if cls == "ok" else "raised-" + cls if cls != "ValueError" else "error-does-not-name-the-row"),
                                  {"text": text2, "source": src, "dtype": "int", "outcome": [cls, repr(val)[:300]]})
            # patterns
            pats = [[[(float(rng.randint(0, 40)) * 0.25, float(rng.randint(40, 90))) for _ in range(rng.randint(1, 3))]
                     for _ in range(rng.randint(1, 3))] for _ in range(rng.randint(1, 3))]
            text = ""
            for pi, p in enumerate(pats, 1):
                text += "pattern%d\n" % pi
                for oi, o in enumerate(p, 1):
                    text += "occurrence%d\n" % oi + "".join("%r, %r\n" % (a, b) for a, b in o)
            for src, (cls, val, nw) in load_both(me, "patterns", text, "space", scratch):
                n += 1
                if cls != "ok" or val != pats:
                    rep.violation("io.load_patterns", "round-trip-differs", {"text": text, "source": src, "outcome": [cls, repr(val)[:300]]})
            # content that parses but violates a convention: a warning and a return value, never an exception
            bad = rng.choice([("events", "3.0\n1.0\n"), ("intervals", "2.0 1.0\n"), ("labeled_intervals", "-1.0 2.0 a\n"),
                              ("key", "H major\n"), ("key", "C dorian\n"), ("tempo", "-60 120 0.5\n"), ("valued_intervals", "3 3 440\n"),
                              ("labeled_events", "40000.0 far\n")])
            for src, (cls, val, nw) in load_both(me, bad[0], bad[1], "space", scratch):
                n += 1
                if cls != "ok" or nw < 1:
                    rep.violation("io.load_" + bad[0], "convention-violation/" + ("no-warning" if cls == "ok" else "raised-" + cls),
                                  {"text": bad[1], "source": src, "outcome": [cls, repr(val)[:200]]})
            # other documented comment markers: a regular expression anchored at the start of the line.  Data rows that
            # merely CONTAIN a marker (inside a label) are data.
            marker, lab = rng.choice([("%", "swing 50% feel"), ("#|%", "rate 5% up"), (";", "a;b"), ("//", "path//x"), ("#|%", "x#y")])
            first = marker.split("|")[0]
            rows_ = [(1.5, 2.5, lab), (3.0, 4.25, "plain")]
            text = "%s header\n" % first + "".join("%r %r %s\n" % r_ for r_ in rows_) + ("%s tail\n" % marker.split("|")[-1])
            for src, (cls, val, nw) in load_both(me, "labeled_intervals", text, "space", scratch, comment=marker):
                n += 1
                ok = cls == "ok" and same_value(val[0], np.array([[1.5, 2.5], [3.0, 4.25]])) and val[1] == [lab, "plain"]
                if not ok:
                    rep.violation("io.load_labeled_intervals", "comment-marker/value-differs",
                                  {"text": text, "comment": marker, "source": src, "outcome": [cls, repr(val)[:300]]})
            text = "# not a comment now\n"
            for src, (cls, val, nw) in load_both(me, "events", "1.5\n" + text, "space", scratch, comment="%"):
                n += 1
                if cls != "ValueError" or ":2:" not in val:
                    rep.violation("io.load_events", "comment-marker/other-marker-line-not-rejected", {"text": "1.5\n" + text, "comment": "%", "outcome": [cls, repr(val)[:200]]})
            # comment=None: no line is a comment - plain rows load as usual, a '#' line is then a malformed row
            for src, (cls, val, nw) in load_both(me, "events", "1.5\n2.25\n", "space", scratch, extra={"comment": None}):
                n += 1
                if cls != "ok" or not same_value(val, np.array([1.5, 2.25])):
                    rep.violation("io.load_events", "comment-none/value-differs", {"text": "1.5\n2.25\n", "comment": None, "source": src, "outcome": [cls, repr(val)[:200]]})
            for loader, text in (("events", "1.5\n# x\n"), ("ragged_time_series", "1.5 440.0\n# x\n")):
                for src, (cls, val, nw) in load_both(me, loader, text, "space", scratch, extra={"comment": None}):
                    n += 1
                    if cls != "ValueError" or ":1:" not in str(val) and ":2:" not in str(val):
                        rep.violation("io.load_" + loader, "comment-none/marker-line-not-rejected", {"text": text, "comment": None, "source": src, "outcome": [cls, repr(val)[:200]]})
            # ragged time series: an unparsable time stamp / value names its row
            for text, rowno in (("0.5 440\nabc 220\n", 1), ("0.5 440\n1.0 2x0\n", 1)):
                for src, (cls, val, nw) in load_both(me, "ragged_time_series", text, "space", scratch):
                    n += 1
                    if cls != "ValueError" or (":%d:" % rowno) not in str(val):
                        rep.violation("io.load_ragged_time_series", "malformed-row/" + ("returned-a-value" if cls == "ok" else "raised-" + cls if cls != "ValueError" else "error-does-not-name-the-row"),
                                      {"text": text, "source": src, "outcome": [cls, repr(val)[:200]]})
            for text in ("60 120 1.5\n", "60 120 -0.1\n"):
                for src, (cls, val, nw) in load_both(me, "tempo", text, "space", scratch):
                    n += 1
                    if cls != "ValueError":
                        rep.violation("io.load_tempo", "weight-out-of-range/" + ("returned-a-value" if cls == "ok" else "raised-" + cls),
                                      {"text": text, "source": src})
    finally:
        shutil.rmtree(scratch, ignore_errors=True)
    ev.cov["traces_validated_against_impl"] = n
    ev.cov["rule"] = ("every model file x %s delimiter classes x {file object, path}, rendered with seeded float literals and labels; "
                      "plus seeded ragged series / pattern files / convention violations; distinct = distinct (loader, line kinds, "
                      "delimiter); non-trivial = at least two lines" % ("4" if thorough else "2 of 4"))
    ev.cov["exhaustive"] = True
    ev.d["assumptions"] = ["float literals are compared through float(text) (Python's correctly rounded parser) bit by bit",
                           "an empty tempo file is reported under its own class (tempo-file-without-data-line)"]
    code = rep.finish()
    ev.write(violations=len(rep.violations))
    return code


def replay(path):
    v = json.load(open(path))
    print(json.dumps(v, indent=1)[:3000])
    return run("quick", 0)
