"""C01 - proportion-type scores are finite and lie in [0, 1].

Specification level: the range invariants of the definitional models (MC_C16 InRange: pairwise, Rand,
ARI; MC_C12 InRange: the 15 chord scores; MC_Key InRange; MC_C05 Bound: hits <= min(n, m)) are
model-checked on every enumerated input.  Code level: every evaluate() and metric function of the 13
tasks is run on seeded valid inputs of all degenerate shapes (empty, single, duplicated, clustered,
identical, disjoint) with default and in-range non-default parameters; every returned value is encoded
and classified by Trace_Range (table Kinds: prop / bin / chance / err / dev / pscore / aor / fin).
Violations are tagged with an input class so that recorded findings stay specific."""
import json
import random

import numpy as np

from .. import tlc, trace, gen, realdata
from ..common import Evidence, Reporter, import_mir_eval
from ..relations import enc, call

PROP = "C01"


def frame_labels(iv, labs, fs):
    n = int(np.floor(iv.max() / fs)) if len(iv) else 0
    out = []
    for k in range(n):
        t = np.float32(k) * fs
        hit = [str(l).lower() for (a, b), l in zip(iv, labs) if a <= t <= b]
        out.append(hit[-1] if hit else None)
    return out


def tag_for(fn, args, kw, me):
    """input class of a violating call (for the known-findings file); computed from the input alone"""
    try:
        if fn.startswith("beat."):
            a = np.asarray(args[0]); b = np.asarray(args[1])
            if fn == "beat.evaluate":
                mt = kw.get("min_beat_time", 5.0)
                a, b = a[a >= mt], b[b >= mt]
            if (len(a) > 1 and np.any(np.diff(a) == 0)) or (len(b) > 1 and np.any(np.diff(b) == 0)):
                return "duplicate-beat-times"
            if fn in ("beat.cemgil", "beat.evaluate") and len(a) > 1 and np.min(np.diff(a)) <= 4 * kw.get("cemgil_sigma", 0.04):
                return "beats-closer-than-4-sigma"
        if fn.startswith("segment.") and fn not in ("segment.detection", "segment.deviation"):
            ri, rl, ei, el = args[:4]
            fs = kw.get("frame_size", 0.1)
            if fn == "segment.evaluate":
                ri, rl = me.util.adjust_intervals(ri, labels=list(rl), t_min=0.0)
                ei, el = me.util.adjust_intervals(ei, labels=list(el), t_min=0.0, t_max=ri.max())
            yr, ye = frame_labels(ri, rl, fs), frame_labels(ei, el, fs)
            if len(yr) <= 1:
                return "at-most-one-frame"
            if len(set(yr)) == len(yr) or len(set(ye)) == len(ye):
                return "a-side-has-all-distinct-frame-labels"
            if len(set(yr)) == 1 or len(set(ye)) == 1:
                return "a-side-has-one-frame-label"
        if fn.startswith("pattern."):
            ref, est = args[0], args[1]
            # translation in time AND pitch (standard_FPR compares point-to-point differences; single notes always match)
            protos = [tuple((round(o - p[0][0][0], 6), round(m - p[0][0][1], 6)) for o, m in p[0]) for p in ref if p and p[0]]
            if len(set(protos)) < len(protos):
                return "reference-prototypes-coincide-up-to-translation"
        if fn == "chord.weighted_accuracy":
            c, w = args
            if np.sum(w[c >= 0]) == 0 and np.sum(w) > 0:
                return "comparable-weights-sum-to-zero"
    except Exception:  # noqa
        pass
    return "general"


def run(tier, seed):
    me = import_mir_eval()
    rng = random.Random(seed)
    ev = Evidence(PROP, tier, seed)
    rep = Reporter(PROP)
    thorough = tier == "thorough"
    for m, cfg, note in (("MC_C16", "MC_C16", "InRange (pairwise, Rand, ARI)"), ("MC_C12", "MC_C12", "InRange (15 chord scores)"),
                         ("MC_Key", "MC_Key", "InRange"), ("MC_C05_events", "MC_C05_events", "Bound (hits <= min(n,m))")):
        res = tlc.run(m, cfg=cfg, timeout=3000, heap="8g", want=())
        ev.tlc(cfg, res, "invariant " + note + " on the definitions")

    T = gen.catalogue(me)
    events, meta = [], {}

    def record(fn, r, args, kw, **flags):
        if r[0] != "ok":
            return          # outcomes that are exceptions are C14's business
        tid = len(events) + 1
        events.append({"tid": tid, "fn": fn, "vals": [enc(x) for x in r[1]], "emptyside": bool(flags.get("emptyside", False)),
                       "wellsep": bool(flags.get("wellsep", True))})
        meta[tid] = (fn, args, kw, r[1])

    def nbounds(iv, trim):
        return len(np.unique(np.round(iv, 5))) - (2 if trim else 0) if len(iv) else 0

    def wellsep(a, b, thr=0.2):
        a, b = np.asarray(a), np.asarray(b)
        if len(a) < 2 or len(b) < 2:
            return True
        off = min(a.min(), b.min())
        idx = np.unique(np.ceil((a - off) * 100).astype(int))
        if len(idx) < 2:
            return False
        win = int(np.round(thr * np.median(np.diff(idx)))) * 0.01
        return bool(np.min(np.diff(a)) > 2 * win and np.min(np.diff(b)) > 2 * win)

    n = 120 if thorough else 25
    n_real = 0
    for name, t in T.items():
        cases = []
        for k in range(n):
            shape = t.shapes[k % len(t.shapes)]
            args = t.gen(rng, shape)
            kws = [{}] + ([dict(rng.sample(sorted(t.kw_pool.items(), key=str), rng.randint(1, len(t.kw_pool)))) ] if t.kw_pool else [])
            cases.append((args, kws))
        # the repository's own annotation fixtures (real-world sizes and vocabularies), default parameters
        for nm, ra in realdata.pairs(me, name, limit=None if thorough else 3):
            cases.append((ra, [{}]))
            n_real += 1
        for args, kws in cases:
            for kw in kws:
                r = call(t.evaluate, *args, **kw)
                fnn = name + ".evaluate"
                flags = {}
                if name == "transcription":
                    fnn = "transcription.evaluate%d" % len(r[1]) if r[0] == "ok" else fnn
                if name == "transcription_velocity":
                    fnn = "transcription_velocity.evaluate%d" % len(r[1]) if r[0] == "ok" else fnn
                if name == "segment" and r[0] == "ok":
                    ri = args[0]
                    ei = me.util.adjust_intervals(args[2], labels=list(args[3]), t_min=0.0, t_max=ri.max())[0] if len(ri) else args[2]
                    tr_ = kw.get("trim", False)
                    flags["emptyside"] = nbounds(ri, tr_) <= 0 or nbounds(ei, tr_) <= 0
                if name == "beat":
                    mt = kw.get("min_beat_time", 5.0)
                    flags["wellsep"] = wellsep(args[0][args[0] >= mt], args[1][args[1] >= mt], kw.get("p_score_threshold", 0.2))
                record(fnn, r, args, kw, **flags)
            for (mn, fn, sel, kwl) in t.metrics:
                if mn.startswith("chord.") or mn.startswith("melody."):
                    continue
                for kw in kwl:
                    try:
                        a = sel(args)
                    except Exception:
                        continue
                    r = call(fn, *a, **kw)
                    flags = {}
                    if mn == "segment.deviation":
                        flags["emptyside"] = nbounds(a[0], kw.get("trim", False)) <= 0 or nbounds(a[1], kw.get("trim", False)) <= 0
                    if mn == "beat.p_score":
                        flags["wellsep"] = wellsep(a[0], a[1], kw.get("p_score_threshold", 0.2))
                    record(mn, r, a, kw, **flags)
            if name == "melody":
                for kw in ({}, {"cent_tolerance": 30}):
                    def five():
                        v = me.melody.to_cent_voicing(*args)
                        return (me.melody.voicing_recall(v[0], v[2]), me.melody.voicing_false_alarm(v[0], v[2]),
                                me.melody.raw_pitch_accuracy(*v, **kw), me.melody.raw_chroma_accuracy(*v, **kw),
                                me.melody.overall_accuracy(*v, **kw))
                    record("melody.measures", call(five), args, kw)
                # continuous voicing / reward in [0,1]
                ev_ = np.array([rng.choice([0.0, 0.25, 0.5, 1.0]) for _ in args[3]])
                rr = np.array([rng.choice([0.0, 0.5, 1.0]) for _ in args[1]])
                record("melody.evaluate", call(me.melody.evaluate, *args, est_voicing=ev_, ref_reward=rr), args, {"est_voicing": ev_.tolist(), "ref_reward": rr.tolist()})
                # soft reward anti-correlated with the estimate's voicing, pitch tracked exactly (the overall accuracy's two
                # terms are both at their largest)
                rr2 = np.array([rng.choice([0.0625, 0.125, 0.25, 1.0]) for _ in args[1]])
                ev2 = (rr2 == 1.0).astype(float)
                a2 = (args[0], np.abs(args[1]) + 55.0, args[0].copy(), np.abs(args[1]) + 55.0)
                record("melody.evaluate", call(me.melody.evaluate, *a2, est_voicing=ev2, ref_reward=rr2), a2, {"est_voicing": ev2.tolist(), "ref_reward": rr2.tolist()})
                v2 = me.melody.to_cent_voicing(*a2, est_voicing=ev2, ref_reward=rr2)
                record("melody.measures", call(lambda: (me.melody.voicing_recall(v2[0], v2[2]), me.melody.voicing_false_alarm(v2[0], v2[2]),
                                                        me.melody.raw_pitch_accuracy(*v2), me.melody.raw_chroma_accuracy(*v2),
                                                        me.melody.overall_accuracy(*v2))), a2, {"est_voicing": ev2.tolist(), "ref_reward": rr2.tolist()})
            if name == "chord":
                nn = rng.randint(1, 6)
                cmpv = np.array([rng.choice([1.0, 0.0, -1.0]) for _ in range(nn)])
                w = np.array([rng.choice([0.0, 0.25, 1.0, 2.5]) for _ in range(nn)])
                record("chord.weighted_accuracy", call(me.chord.weighted_accuracy, cmpv, w), (cmpv, w), {})
                ri, ei = args[0], args[2]
                if len(ri) and len(ei):
                    lo, hi = ri.min(), ri.max()
                    e2 = me.util.adjust_intervals(ei, None, lo, hi)[0]
                    record("chord.seg", call(lambda: (me.chord.overseg(ri, e2), me.chord.underseg(ri, e2), me.chord.seg(ri, e2))), (ri, e2), {})
                    # the segmentation scores called directly on annotations that do NOT span the same time range (no adjust_intervals)
                    # and on a reference with a gap: both pass validation, and every term dur - max overlap stays within [0, dur]
                    e3 = ei + rng.choice([-2.0, -0.75, 0.5, 3.0])
                    e3 = e3 - min(0.0, e3.min())
                    record("chord.seg", call(lambda: (me.chord.overseg(ri, e3), me.chord.underseg(ri, e3), me.chord.seg(ri, e3))), (ri, e3), {"family": "unaligned spans"})
                    if len(ri) > 2:
                        r3 = np.delete(ri, rng.randint(1, len(ri) - 2), axis=0)
                        record("chord.seg", call(lambda: (me.chord.overseg(r3, e3), me.chord.underseg(r3, e3), me.chord.seg(r3, e3))), (r3, e3), {"family": "reference with a gap"})
    # the melody measures called directly on EMPTY voicing / cent arrays (valid, warned about, scored 0): branch coverage of the
    # library under the twenty checks showed these early returns unexercised
    _e = np.array([])
    _v3 = np.array([1.0, 0.0, 1.0])
    record("melody.measures", call(lambda: (me.melody.voicing_recall(_e, _e), me.melody.voicing_false_alarm(_e, _e),
                                            me.melody.raw_pitch_accuracy(_e, _e, _e, _e), me.melody.raw_chroma_accuracy(_e, _e, _e, _e),
                                            me.melody.overall_accuracy(_e, _e, _e, _e))), (_e, _e, _e, _e), {"family": "empty arrays"})
    record("melody.measures", call(lambda: (me.melody.voicing_recall(_v3, _e), me.melody.voicing_false_alarm(_v3, _e),
                                            me.melody.voicing_false_alarm(_e, _v3)) +
                                   tuple(me.melody.voicing_measures(_e, _e))), (_v3, _e), {"family": "one side empty"})
    # fixed witnesses of the input classes of the recorded findings (so that every run exercises them, whatever the seed)
    w_cem = (np.array([6.5, 6.5, 6.5, 7.5, 8.5]), np.array([6.5, 8.5]))             # Cemgil 1.14 / 1.2 with a triplicated beat
    w_ig = (np.array([6.0, 6.5, 7.0, 7.0]), np.array([6.0, 6.0, 9.0]))               # information gain NaN with duplicated beats
    w_close = (6.0 + np.arange(12) * 0.1, 6.0 + np.arange(12) * 0.1 + 0.02)          # best-metric-level Cemgil 1.08: beats 0.1 s apart
    for fnn, fn_, a_ in (("beat.cemgil", me.beat.cemgil, w_cem), ("beat.evaluate", me.beat.evaluate, w_cem),
                         ("beat.information_gain", me.beat.information_gain, w_ig), ("beat.evaluate", me.beat.evaluate, w_ig),
                         ("beat.cemgil", me.beat.cemgil, w_close), ("beat.evaluate", me.beat.evaluate, w_close)):
        record(fnn, call(fn_, *a_), a_, {}, wellsep=False)
    wa = (np.array([-1.0, 1.0]), np.array([1.0, 0.0]))
    record("chord.weighted_accuracy", call(me.chord.weighted_accuracy, *wa), wa, {})
    fs_w = {"frame_size": 0.25}
    w_dist = (np.array([[0.0, 0.25], [0.25, 0.5], [0.5, 0.75]]), ["a", "b", "c"], np.array([[0.0, 0.25], [0.25, 0.5], [0.5, 0.75]]), ["x", "y", "z"])
    w_one = (np.array([[0.0, 0.25]]), ["a"], np.array([[0.0, 0.25]]), ["b"])
    w_two = (np.array([[0.0, 0.25], [0.25, 0.5]]), ["a", "b"], np.array([[0.0, 0.25], [0.25, 0.5]]), ["x", "y"])     # AMI NaN
    for a_ in (w_dist, w_one, w_two):
        for fnn, fn_ in (("segment.pairwise", me.segment.pairwise), ("segment.rand_index", me.segment.rand_index),
                         ("segment.mutual_information", me.segment.mutual_information), ("segment.evaluate", me.segment.evaluate)):
            fl = {"emptyside": True} if fnn == "segment.evaluate" and a_ is w_one else {}
            record(fnn, call(fn_, *a_, **fs_w), a_, fs_w, **fl)
    rejects, st = trace.validate_par("Trace_Range", events)
    ev.tlc("Trace_Range", st, "kind/range verdict on every returned value")
    ev.cov["traces_validated_against_impl"] = len(events)
    for rj in rejects:
        fn, args, kw, vals = meta[rj["tid"]]
        tag = tag_for(fn, args, kw, me)
        short = {"kw": str(kw), "values": vals, "args": [np.asarray(a).tolist() if isinstance(a, np.ndarray) else
                                                            (a if isinstance(a, (str, float, int)) else str(a)[:400]) for a in args]}
        rep.violation(fn, tag + "/" + rj["clause"].split("@")[0].split(":")[0] + ":" + rj["clause"].split(":")[-1],
                      {"clause": rj["clause"], "call": short})
    for e in events:
        ev.case((e["fn"], str(meta[e["tid"]][1])[:300], str(meta[e["tid"]][2])),
                nontrivial=any(v["c"] == "fin" and v["m9"] not in (0, 10 ** 9) for v in e["vals"]))
    ev.sample({"fn": events[0]["fn"], "values": meta[1][3]})
    ev.cov["repository_fixture_pairs_scored"] = n_real
    ev.cov["rule"] = ("every evaluate() and metric function of the 13 tasks on seeded valid inputs of all shapes with default and "
                      "non-default in-range parameters, + the repository's annotation fixtures; each returned value classified by Trace_Range; distinct = distinct "
                      "(function, input, parameters); non-trivial = some value strictly between 0 and 1")
    ev.d["assumptions"] = ["the P-score bound is only required when beats inside each sequence are further apart than twice the "
                           "correlation window (flag computed by the harness from the input)", "bounds of the transcendental scores "
                           "are checked on implementation outputs, not proved from the formula"]
    code = rep.finish()
    ev.write(violations=len(rep.violations))
    return code


def replay(path):
    v = json.load(open(path))
    print(json.dumps(v, indent=1)[:3000])
    return run("quick", 0)
