"""C05 - hit counts come from a valid, maximum one-to-one matching.

spec -> code : TLC enumerates every bipartite graph (NLxNR), every pair of event lists / chroma
               lists / note lists on a lattice with every parameter combination, computes the
               feasibility graph from the documented predicate and the maximum size by
               definition; each row is replayed into util._bipartite_match, util.match_events,
               multipitch.compute_num_true_positives, transcription.match_note* and
               transcription_velocity.match_notes.
code -> spec : larger random instances are pushed through the metric functions with the recorder
               on; every recorded matching is certified in TLC (Trace_C05: feasible pairs,
               one-to-one, no augmenting path).
design       : MC_C05_algo - the greedy+phases algorithm as a state machine, all graphs 3x3, every
               resolution of nondeterminism; valid at every step, maximum at termination."""
import json
import random
import sys

import numpy as np

from .. import tlc, trace, realdata
from ..common import Evidence, Reporter, import_mir_eval, Machinery
from ..recorder import Recorder

PROP = "C05"


# --------------------------------------------------------------------------- helpers
def check_matching(pairs, edges, mx):
    """pairs: list of (i,j) 1-based; edges: set of (i,j). returns failing clause or None"""
    ps = [tuple(p) for p in pairs]
    if len(set(ps)) != len(ps):
        return "duplicate-pair"
    if any(p not in edges for p in ps):
        return "infeasible-pair"
    if len({p[0] for p in ps}) != len(ps) or len({p[1] for p in ps}) != len(ps):
        return "not-one-to-one"
    if len(ps) != mx:
        return "not-maximum"
    return None


def orderings(nl, nr, edges, rng):
    """graph dicts {left: [right...]} under several vertex / adjacency orders"""
    adj = {u: [v for (a, v) in sorted(edges) if a == u] for u in range(1, nl + 1)}
    nat = {u: list(vs) for u, vs in adj.items() if vs}
    yield "natural", nat
    yield "reversed", {u: list(reversed(adj[u])) for u in reversed(range(1, nl + 1))}  # incl. empty lists
    us = [u for u in adj if adj[u]]
    rng.shuffle(us)
    g = {}
    for u in us:
        vs = list(adj[u]); rng.shuffle(vs); g[u] = vs
    yield "shuffled", g


def notes_arrays(notes):
    iv = np.array([[n["on"] / 16.0, (n["on"] + n["dur"]) / 16.0] for n in notes], dtype=float).reshape(-1, 2)
    p = np.array([440.0 * 2.0 ** (n["p"] / 1200.0) for n in notes], dtype=float)
    return iv, p


def fr(x):
    return x[0] / float(x[1])


# --------------------------------------------------------------------------- replay (spec -> code)
def replay_graphs(me, rows, rep, ev, rng):
    for r in rows:
        edges = {tuple(e) for e in r["e"]}
        for name, g in orderings(r["nl"], r["nr"], edges, rng):
            try:
                m = me.util._bipartite_match({u: list(vs) for u, vs in g.items()})
                pairs = [(u, v) for v, u in m.items()]
                bad = check_matching(pairs, edges, r["mx"])
            except Exception as ex:  # noqa
                bad = "raised-" + type(ex).__name__
            if bad:
                rep.violation("util._bipartite_match", bad, {"graph": {str(k): v for k, v in g.items()},
                                                            "order": name, "expected_size": r["mx"]})
        ev.case(("g", r["nl"], r["nr"], r["e"]), nontrivial=len(edges) >= 2)
    ev.sample({"model": "MC_C05_graphs", "row": rows[len(rows) // 2]})


def replay_events(me, rows, rep, ev):
    for r in rows:
        unit = 0.125 if r["mode"] == "abs" else 12.0 / r["modulus"]
        ref = np.array(r["ref"], dtype=float) * unit
        est = np.array(r["est"], dtype=float) * unit
        w = r["w"] * unit
        edges = {tuple(e) for e in r["e"]}
        detail = {"mode": r["mode"], "ref": ref.tolist(), "est": est.tolist(), "window": w, "expected_size": r["mx"]}
        try:
            if r["mode"] == "abs":
                m = me.util.match_events(ref, est, w)
                fn = "util.match_events"
            else:
                m = me.util.match_events(ref, est, w, distance=me.util._outer_distance_mod_n)
                fn = "util.match_events[chroma]"
            bad = check_matching([(int(i) + 1, int(j) + 1) for i, j in m], edges, r["mx"])
        except Exception as ex:  # noqa
            bad, fn = "raised-" + type(ex).__name__, "util.match_events"
        if bad:
            rep.violation(fn, bad, detail)
        # the count used by multipitch (one frame)
        try:
            tp = me.multipitch.compute_num_true_positives([ref], [est], window=w, chroma=(r["mode"] != "abs"))
            if int(tp[0]) != r["mx"] or tp.shape != (1,):
                rep.violation("multipitch.compute_num_true_positives", "count-differs", detail)
        except Exception as ex:  # noqa
            rep.violation("multipitch.compute_num_true_positives", "raised-" + type(ex).__name__, detail)
        ev.case(("e", r["mode"], r["ref"], r["est"], r["w"]),
                nontrivial=0 < len(edges) < len(r["ref"]) * len(r["est"]))
    ev.sample({"model": "MC_C05_events/" + rows[0]["mode"], "row": rows[len(rows) // 3]})


def replay_notes(me, rows, rep, ev):
    tr, tv = me.transcription, me.transcription_velocity
    for k, r in enumerate(rows):
        ri, rp = notes_arrays(r["ref"])
        ei, epp = notes_arrays(r["est"])
        par = r["par"]
        ratio = None if par["ratio"] == [0, 0] else fr(par["ratio"])
        kw = dict(onset_tolerance=fr(par["ot"]) / 16.0, pitch_tolerance=fr(r["pt"]),
                  offset_ratio=ratio, offset_min_tolerance=fr(par["mintol"]) / 16.0, strict=par["strict"])
        detail = {"ref_intervals": ri.tolist(), "ref_cents": [n["p"] for n in r["ref"]],
                  "est_intervals": ei.tolist(), "est_cents": [n["p"] for n in r["est"]], "kwargs": kw}
        calls = [("transcription.match_notes", lambda: tr.match_notes(ri, rp, ei, epp, **kw), r["en"], r["mn"]),
                 ("transcription.match_note_onsets",
                  lambda: tr.match_note_onsets(ri, ei, onset_tolerance=kw["onset_tolerance"], strict=kw["strict"]),
                  r["eon"], r["mon"])]
        if ratio is not None:
            calls.append(("transcription.match_note_offsets",
                          lambda: tr.match_note_offsets(ri, ei, offset_ratio=ratio,
                                                        offset_min_tolerance=kw["offset_min_tolerance"],
                                                        strict=kw["strict"]), r["eof"], r["mof"]))
        for fn, call, e, mx in calls:
            edges = {tuple(x) for x in e}
            try:
                m = call()
                bad = check_matching([(int(i) + 1, int(j) + 1) for i, j in m], edges, mx)
            except Exception as ex:  # noqa
                bad = "raised-" + type(ex).__name__
            if bad:
                rep.violation(fn, bad, dict(detail, expected_size=mx))
        # velocity variant: a sub-matching of the feasible note pairs (never a new pair)
        if len(r["ref"]) and len(r["est"]) and k % 3 == 0:
            rv = np.array([10.0 + 30 * (i % 3) for i in range(len(r["ref"]))])
            evv = np.array([20.0 + 25 * ((i + 1) % 3) for i in range(len(r["est"]))])
            edges = {tuple(x) for x in r["en"]}
            try:
                m = tv.match_notes(ri, rp, rv, ei, epp, evv, velocity_tolerance=0.5, **kw)
                ps = [(int(i) + 1, int(j) + 1) for i, j in m]
                bad = check_matching(ps, edges, len(ps))
                if not bad and len(ps) > r["mn"]:
                    bad = "larger-than-maximum"
            except Exception as ex:  # noqa
                bad = "raised-" + type(ex).__name__
            if bad:
                rep.violation("transcription_velocity.match_notes", bad, detail)
        ev.case(("n", r["ref"], r["est"], par), nontrivial=0 < len(r["en"]) and len(r["eon"]) > len(r["en"]))
    ev.sample({"model": "MC_C05_notes", "row": rows[len(rows) // 2]})


# --------------------------------------------------------------------------- algorithm traces (code -> MC_C05_algo)
class PhaseTracer:
    """Observes the Hopcroft-Karp loop of util._bipartite_match WITHOUT touching it: sys.monitoring PY_START on the code
    object of its nested function `recurse`; whenever `recurse` is entered from _bipartite_match itself (not recursively)
    the enclosing frame's `matching` is snapshotted.  The snapshots are the states of the machine of MC_C05_algo
    (Greedy, then Phase steps); if a refactoring removes `recurse` there are simply no snapshots."""
    TOOL = 0

    def __init__(self, me):
        self.parent = me.util._bipartite_match.__code__
        self.child = next((c for c in self.parent.co_consts if hasattr(c, "co_name") and c.co_name == "recurse"), None)
        self.runs = []          # one list of snapshots per _bipartite_match call
        self.cur = None

    def _start(self, code, off):
        if code is self.parent:
            self.cur = []
            self.runs.append(self.cur)
        elif code is self.child and self.cur is not None:
            fr_ = sys._getframe(1).f_back
            if fr_ is not None and fr_.f_code is self.parent:
                m = fr_.f_locals.get("matching")
                if isinstance(m, dict):
                    self.cur.append(sorted((int(u), int(v)) for v, u in m.items()))

    def __enter__(self):
        mon = sys.monitoring
        if mon.get_tool(self.TOOL) is not None:
            mon.free_tool_id(self.TOOL)
        mon.use_tool_id(self.TOOL, "mir_eval_verif_phases")
        mon.register_callback(self.TOOL, mon.events.PY_START, self._start)
        mon.set_local_events(self.TOOL, self.parent, mon.events.PY_START)
        if self.child is not None:
            mon.set_local_events(self.TOOL, self.child, mon.events.PY_START)
        return self

    def __exit__(self, *a):
        mon = sys.monitoring
        mon.set_local_events(self.TOOL, self.parent, 0)
        if self.child is not None:
            mon.set_local_events(self.TOOL, self.child, 0)
        mon.free_tool_id(self.TOOL)
        return False


def algo_events(me, rng, n, maxn):
    """random bipartite graphs (adjacency orders shuffled) run through _bipartite_match with the phase tracer"""
    out = []
    with PhaseTracer(me) as tr:
        graphs = []
        for _ in range(n):
            nl, nr = rng.randint(1, maxn), rng.randint(1, maxn)
            p = rng.choice([0.15, 0.3, 0.5])
            g = {}
            for u in range(1, nl + 1):
                vs = [v for v in range(1, nr + 1) if rng.random() < p]
                rng.shuffle(vs)
                if vs:
                    g[u] = vs
            items = list(g.items()); rng.shuffle(items)
            g = dict(items)
            graphs.append((nl, nr, g))
            res = me.util._bipartite_match({u: list(vs) for u, vs in g.items()})
            graphs[-1] += (sorted((int(u), int(v)) for v, u in res.items()),)
        for (nl, nr, g, final), snaps in zip(graphs, tr.runs):
            out.append({"kind": "algo", "nl": nl, "nr": nr, "e": sorted([u, v] for u, vs in g.items() for v in vs),
                        "snaps": [[list(p) for p in s_] for s_ in snaps], "m": [list(p) for p in final], "count": len(final)})
    return out


# --------------------------------------------------------------------------- traces (code -> spec)
def lattice(x, unit):
    k = np.asarray(x, dtype=float) / unit
    r = np.round(k)
    if k.size and np.max(np.abs(k - r)) > 1e-9:
        raise Machinery("recorded value off the lattice: %r" % (x,))
    return [int(v) for v in r]


def record_traces(me, rng, n_rounds, maxn):
    """drive the metric functions on random lattice inputs with the recorder on; return TLC events"""
    U = 0.125
    tr = me.transcription
    tv = me.transcription_velocity
    fns = [me.util._bipartite_match, me.util.match_events, tr.match_notes, tr.match_note_onsets,
           tr.match_note_offsets, tv.match_notes]
    out = []
    rec = Recorder(fns)

    def rnd_events(lo, hi):
        n = rng.randint(0, maxn)
        return np.array(sorted(rng.randint(lo, hi) for _ in range(n)), dtype=float) * U

    def rnd_notes():
        n = rng.randint(0, maxn)
        on = [rng.randint(0, 12) for _ in range(n)]
        du = [rng.randint(1, 6) for _ in range(n)]
        pc = [rng.choice([0, 40, 80, 120]) for _ in range(n)]
        iv = np.array([[o / 16.0, (o + d) / 16.0] for o, d in zip(on, du)], dtype=float).reshape(-1, 2)
        return iv, np.array([440.0 * 2 ** (c / 1200.0) for c in pc]), [dict(on=o, dur=d, p=c) for o, d, c in zip(on, du, pc)]

    with rec:
        for it in range(n_rounds):
            w = rng.choice([1, 2, 3]) * U
            a, b = rnd_events(0, 24), rnd_events(0, 24)
            me.onset.f_measure(a, b, window=w)
            a, b = rnd_events(40, 72), rnd_events(40, 72)       # beats: above the 5 s trim time
            me.beat.f_measure(a, b, f_measure_threshold=w)
            if len(a) > 1 and len(b) > 1:
                ia = np.array([a[:-1], a[1:]]).T
                ib = np.array([b[:-1], b[1:]]).T
                if np.all(ia[:, 1] > ia[:, 0]) and np.all(ib[:, 1] > ib[:, 0]):
                    me.segment.detection(ia, ib, window=w, trim=rng.random() < 0.5)
            # multipitch frames: midi numbers on a half-semitone lattice; chroma wraps
            nf = rng.randint(1, 3)
            rf = [np.array([440.0 * 2 ** (rng.randint(-24, 24) / 24.0) for _ in range(rng.randint(0, maxn // 2))]) for _ in range(nf)]
            ef = [np.array([440.0 * 2 ** (rng.randint(-24, 24) / 24.0) for _ in range(rng.randint(0, maxn // 2))]) for _ in range(nf)]
            t = np.arange(nf) * 0.5
            me.multipitch.metrics(t, rf, t, ef, window=0.74)
            ri, rp, _ = rnd_notes()
            ei, epp, _ = rnd_notes()
            kw = dict(onset_tolerance=rng.choice([1, 2]) / 16.0, offset_ratio=rng.choice([None, 0.25, 0.5]),
                      offset_min_tolerance=rng.choice([0.5, 1]) / 16.0, strict=rng.random() < 0.5)
            tr.precision_recall_f1_overlap(ri, rp, ei, epp, pitch_tolerance=50.0, **kw)
            tr.onset_precision_recall_f1(ri, ei, onset_tolerance=kw["onset_tolerance"], strict=kw["strict"])
            if kw["offset_ratio"]:
                tr.offset_precision_recall_f1(ri, ei, offset_ratio=kw["offset_ratio"],
                                              offset_min_tolerance=kw["offset_min_tolerance"], strict=kw["strict"])
            # velocity-aware matching: integer / half-integer velocities (the trace specification works in exact integers)
            vu = rng.choice([1, 2])
            rvel = np.array([rng.randint(0, 12) / float(vu) for _ in rp])
            evel = np.array([rng.randint(0, 12) / float(vu) for _ in epp])
            tv.precision_recall_f1_overlap(ri, rp, rvel, ei, epp, evel, pitch_tolerance=50.0,
                                           velocity_tolerance=rng.choice([0.05, 0.1, 0.25, 0.5]), **kw)
    tid = 0
    last_inner = None
    for e in rec.events:
        a = e["args"]
        if "ret" not in e:
            continue
        tid += 1
        if e["fn"] == "transcription.match_notes":
            last_inner = (e["depth"], [[int(i) + 1, int(j) + 1] for i, j in e["ret"]])
        if e["fn"] == "transcription_velocity.match_notes":
            # the note matching obtained by the nested call (recorded just before, one level deeper)
            if last_inner is None or last_inner[0] != e["depth"] + 1:
                raise Machinery("velocity event without its nested note matching")
            inner = last_inner[1]
            from fractions import Fraction
            tol = Fraction(a["velocity_tolerance"]).limit_denominator(100)
            allv = list(a["ref_velocities"]) + list(a["est_velocities"])
            vu = 1 if all(float(v).is_integer() for v in allv) else 2
            if len(inner) <= 5:
                out.append({"tid": tid, "kind": "velocity", "inner": inner, "m": [[int(i) + 1, int(j) + 1] for i, j in e["ret"]],
                            "rv": [int(round(v * vu)) for v in a["ref_velocities"]], "evl": [int(round(v * vu)) for v in a["est_velocities"]],
                            "tol": [tol.numerator, tol.denominator], "u": vu, "nl": len(a["ref_velocities"]), "nr": len(a["est_velocities"]),
                            "count": len(e["ret"])})
            continue
        if e["fn"] == "util._bipartite_match":
            g = a["graph"]
            ls = sorted({int(u) for u in g})
            rs = sorted({int(v) for vs in g.values() for v in vs} | {int(v) for v in e["ret"]})
            li = {u: k + 1 for k, u in enumerate(ls)}
            ri_ = {v: k + 1 for k, v in enumerate(rs)}
            edges = sorted({(li[int(u)], ri_[int(v)]) for u, vs in g.items() for v in vs})
            m = [[li.get(int(u), 0), ri_[int(v)]] for v, u in e["ret"].items()]
            out.append({"tid": tid, "kind": "graph", "nl": len(ls), "nr": len(rs), "e": [list(x) for x in edges],
                        "m": m, "count": len(m)})
        elif e["fn"] == "util.match_events":
            m = [[int(i) + 1, int(j) + 1] for i, j in e["ret"]]
            if a.get("distance") is None:
                if abs(a["window"] - 0.74) < 1e-12:   # multipitch frame: midi numbers, half-semitone lattice
                    ref, est, wq = lattice(a["ref"], 0.5), lattice(a["est"], 0.5), 1
                else:
                    ref, est, wq = lattice(a["ref"], U), lattice(a["est"], U), lattice([a["window"]], U)[0]
                out.append({"tid": tid, "kind": "events", "ref": ref, "est": est, "w": wq,
                            "nl": len(ref), "nr": len(est), "m": m, "count": len(m)})
            else:  # chroma values in semitones mod 12 on a half-semitone lattice; window .74 -> 1 unit
                ref, est = lattice(a["ref"], 0.5), lattice(a["est"], 0.5)
                out.append({"tid": tid, "kind": "chroma", "ref": ref, "est": est, "w": 1, "modulus": 24,
                            "nl": len(ref), "nr": len(est), "m": m, "count": len(m)})
        else:
            def notes(iv, p=None):
                on = lattice(iv[:, 0], 1 / 16.0); off = lattice(iv[:, 1], 1 / 16.0)
                pc = [0] * len(on) if p is None else lattice(1200 * np.log2(np.asarray(p) / 440.0), 1.0)
                return [dict(on=o, dur=f - o, p=c) for o, f, c in zip(on, off, pc)]
            m = [[int(i) + 1, int(j) + 1] for i, j in e["ret"]]
            def rat(x, unit):
                from fractions import Fraction
                f = Fraction(x / unit).limit_denominator(64)
                return [f.numerator, f.denominator]
            base = {"tid": tid, "m": m, "count": len(m), "strict": bool(a.get("strict", False))}
            if e["fn"] == "transcription.match_notes":
                ref, est = notes(a["ref_intervals"], a["ref_pitches"]), notes(a["est_intervals"], a["est_pitches"])
                ratio = [0, 0] if a["offset_ratio"] is None else rat(a["offset_ratio"], 1.0)
                base.update(kind="notes", ref=ref, est=est, ot=rat(a["onset_tolerance"], 1 / 16.0),
                            pt=rat(a["pitch_tolerance"], 1.0), ratio=ratio, mintol=rat(a["offset_min_tolerance"], 1 / 16.0))
            elif e["fn"] == "transcription.match_note_onsets":
                ref, est = notes(a["ref_intervals"]), notes(a["est_intervals"])
                base.update(kind="onsets", ref=ref, est=est, ot=rat(a["onset_tolerance"], 1 / 16.0))
            else:
                ref, est = notes(a["ref_intervals"]), notes(a["est_intervals"])
                base.update(kind="offsets", ref=ref, est=est, ratio=rat(a["offset_ratio"], 1.0),
                            mintol=rat(a["offset_min_tolerance"], 1 / 16.0))
            base.update(nl=len(ref), nr=len(est))
            out.append(base)
    return out


def record_real(me, rng, n_windows):
    """matchings recorded while scoring windows of the repository's own beat / onset / multipitch / note fixtures
    (times snapped to 0.1 ms so that TLC recomputes the feasibility graph in exact integers)"""
    Q = 1e-4
    fns = [me.util._bipartite_match, me.util.match_events]
    rec = Recorder(fns)
    wins = {0.07: 700, 0.05: 500}

    def window(x, lo, hi):
        x = np.round(np.asarray(x, dtype=float), 4)
        return x[(x >= lo) & (x < hi)]
    with rec:
        for task, fn, wname in (("beat", me.beat.f_measure, 0.07), ("onset", me.onset.f_measure, 0.05)):
            ps = realdata.pairs(me, task)
            for k in range(n_windows):
                nm, (a, b) = ps[k % len(ps)]
                if len(a) < 3:
                    continue
                i0 = rng.randrange(0, max(1, len(a) - 12))
                lo, hi = a[i0], a[min(len(a) - 1, i0 + 12)]
                fn(window(a, lo, hi), window(b, lo - 0.1, hi + 0.1))
        ps = realdata.pairs(me, "multipitch")
        for k in range(max(1, n_windows // 4)):
            nm, (rt, rf, et, ef) = ps[k % len(ps)]
            i0 = rng.randrange(0, max(1, len(rt) - 40))
            j0 = int(np.searchsorted(et, rt[i0]))
            me.multipitch.metrics(rt[i0:i0 + 40], rf[i0:i0 + 40], et[j0:j0 + 40], ef[j0:j0 + 40])
        ps = realdata.pairs(me, "transcription")
        for k in range(max(1, n_windows // 4)):
            nm, (ri, rp, ei, ep) = ps[k % len(ps)]
            i0 = rng.randrange(0, max(1, len(ri) - 14))
            lo, hi = ri[i0, 0], ri[min(len(ri) - 1, i0 + 14), 0]
            sel = (ei[:, 0] >= lo - 0.1) & (ei[:, 0] < hi + 0.1)
            me.transcription.precision_recall_f1_overlap(ri[i0:i0 + 14], rp[i0:i0 + 14], ei[sel], ep[sel])
    out, skipped = [], 0
    for e in rec.events:
        a = e["args"]
        if "ret" not in e:
            continue
        if e["fn"] == "util._bipartite_match":
            g = a["graph"]
            ls = sorted({int(u) for u in g})
            rs = sorted({int(v) for vs in g.values() for v in vs} | {int(v) for v in e["ret"]})
            li = {u: k + 1 for k, u in enumerate(ls)}
            ri_ = {v: k + 1 for k, v in enumerate(rs)}
            edges = sorted({(li[int(u)], ri_[int(v)]) for u, vs in g.items() for v in vs})
            m = [[li.get(int(u), 0), ri_[int(v)]] for v, u in e["ret"].items()]
            out.append({"kind": "graph", "nl": len(ls), "nr": len(rs), "e": [list(x) for x in edges], "m": m, "count": len(m)})
        elif a.get("distance") is None and float(a["window"]) in wins:
            wq = wins[float(a["window"])]
            ref = [int(round(x / Q)) for x in a["ref"]]
            est = [int(round(x / Q)) for x in a["est"]]
            if any(abs(x - y) == wq for x in ref for y in est):
                skipped += 1          # a pair exactly ON the window: decided by floating-point rounding, not claimed
                continue
            m = [[int(i) + 1, int(j) + 1] for i, j in e["ret"]]
            out.append({"kind": "events", "ref": ref, "est": est, "w": wq, "nl": len(ref), "nr": len(est), "m": m, "count": len(m)})
    return out, skipped


# --------------------------------------------------------------------------- entry points
def run(tier, seed):
    me = import_mir_eval()
    rng = random.Random(seed)
    ev = Evidence(PROP, tier, seed)
    rep = Reporter(PROP)
    thorough = tier == "thorough"

    # 1. design: the algorithm machine
    res = tlc.run("MC_C05_algo", cfg="MC_C05_algo_T" if thorough else "MC_C05_algo", deadlock=True, timeout=3000)
    ev.tlc("MC_C05_algo", res, "greedy+phase machine; Valid, BergeInv, DoneMax, no deadlock before Finish")
    # vertex sets too large to enumerate every graph: random graphs (seeded), every resolution of the nondeterminism
    res = tlc.run("MC_C05_algo", cfg="MC_C05_algo_S_T" if thorough else "MC_C05_algo_S", deadlock=True, timeout=3000, want=(),
                  extra=["-seed", str(1000 + seed)])
    ev.tlc("MC_C05_algo_S", res, "the same machine on sampled 5x5 (thorough 6x6) graphs; Valid, BergeInv, DoneMax, no deadlock before Finish")

    # 2. all bipartite graphs
    res = tlc.run("MC_C05_graphs", cfg="MC_C05_graphs_T" if thorough else "MC_C05_graphs", timeout=3400, heap="8g")
    rows = res["rows"]["ROW"]
    if len(rows) * 2 != res["distinct"]:
        raise Machinery("graphs: %d rows for %d states" % (len(rows), res["distinct"]))
    ev.tlc("MC_C05_graphs", res, "every bipartite graph %dx%d" % (rows[0]["nl"], rows[0]["nr"]))
    replay_graphs(me, rows, rep, ev, rng)

    # 3. event lists, plain and chroma-wrapped
    for cfg in (("MC_C05_events_T" if thorough else "MC_C05_events"),
                ("MC_C05_chroma_T" if thorough else "MC_C05_chroma")):
        res = tlc.run("MC_C05_events", cfg=cfg, timeout=3400, heap="8g")
        rows = res["rows"]["ROW"]
        if len(rows) * 2 != res["distinct"]:
            raise Machinery("%s: %d rows for %d states" % (cfg, len(rows), res["distinct"]))
        ev.tlc(cfg, res)
        replay_events(me, rows, rep, ev)

    # 4. notes
    res = tlc.run("MC_C05_notes", cfg="MC_C05_notes_T" if thorough else "MC_C05_notes", timeout=3400, heap="8g")
    rows = res["rows"]["ROW"]
    if len(rows) * 2 != res["distinct"]:
        raise Machinery("notes: %d rows for %d states" % (len(rows), res["distinct"]))
    ev.tlc("MC_C05_notes", res)
    replay_notes(me, rows, rep, ev)

    # 5. recorded behaviours of the real code, certified by TLC
    events = record_traces(me, rng, 1500 if thorough else 250, 14 if thorough else 9)
    algo = algo_events(me, rng, 3000 if thorough else 600, 10 if thorough else 7)
    for a_ in algo:
        a_["tid"] = len(events) + 1
        events.append(a_)
    real, real_skipped = record_real(me, rng, 60 if thorough else 16)
    for a_ in real:
        a_["tid"] = len(events) + 1
        events.append(a_)
    ev.cov["matchings_recorded_on_repository_fixtures"] = len(real)
    ev.cov["fixture_events_with_a_pair_on_the_window_skipped"] = real_skipped
    ev.cov["algorithm_runs_traced"] = len(algo)
    ev.cov["algorithm_runs_with_phase_snapshots"] = sum(1 for a_ in algo if a_["snaps"])
    for e_ in events:
        e_.setdefault("snaps", [])
    rejects, st = trace.validate("Trace_C05", events)
    ev.tlc("Trace_C05", st, "recorded matchings certified (feasible, one-to-one, no augmenting path)")
    ev.cov["traces_validated_against_impl"] = len(events)
    byid = {e["tid"]: e for e in events}
    for rj in rejects:
        e = byid[rj["tid"]]
        fn = {"graph": "util._bipartite_match", "algo": "util._bipartite_match", "events": "util.match_events", "chroma": "util.match_events[chroma]",
              "notes": "transcription.match_notes", "onsets": "transcription.match_note_onsets",
              "offsets": "transcription.match_note_offsets", "velocity": "transcription_velocity.match_notes"}[e["kind"]]
        rep.violation(fn, rj["clause"], {"trace_event": e})
    for e in events:
        ev.case(("t", e["kind"], e.get("e") or e.get("ref") or e.get("inner"), e.get("est") or e.get("evl"), e["m"]), nontrivial=len(e["m"]) >= 2)
    ev.sample({"model": "Trace_C05", "event": next((e for e in events if len(e["m"]) >= 3), events[0])})

    ev.cov["rule"] = ("TLC enumerates all bipartite graphs / lattice event, chroma and note lists with all parameter "
                      "combinations; each row replayed into the real functions under several orders; plus seeded "
                      "random larger instances recorded from the metric functions and certified by Trace_C05. "
                      "distinct = distinct input; non-trivial = graph with >=2 edges / feasibility graph neither "
                      "empty nor complete / note case where criteria differ / recorded matching of size >=2")
    ev.cov["exhaustive"] = True
    ev.d["assumptions"] = ["TLC, SANY and the Json/IOUtils community modules are correct",
                           "dyadic lattice values are exact doubles; np.around(.,4) is the identity on 1/16 s",
                           "beyond the exhaustive bounds assurance is by certificate on sampled executions"]
    code = rep.finish()
    ev.write(violations=len(rep.violations))
    return code


def replay(path):
    """re-run one recorded violating case against the current tree"""
    me = import_mir_eval()
    v = json.load(open(path))
    d = v["detail"]
    print("replaying", v["function"], v["class"])
    if "graph" in d:
        g = {int(k): list(vs) for k, vs in d["graph"].items()}
        m = me.util._bipartite_match(g)
        print("matching:", m, "expected size", d["expected_size"])
        ok = len(m) == d["expected_size"] and all(v_ in g[u] for v_, u in m.items())
    elif "mode" in d:
        kw = {} if d["mode"] == "abs" else {"distance": me.util._outer_distance_mod_n}
        m = me.util.match_events(np.array(d["ref"]), np.array(d["est"]), d["window"], **kw)
        print("matching:", m, "expected size", d["expected_size"])
        ok = len(m) == d["expected_size"]
    else:
        print(json.dumps(d)[:2000])
        ok = False
    print("HOLDS" if ok else "VIOLATION property=C05 replay=%s" % path)
    return 0 if ok else 1
