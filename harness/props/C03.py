"""C03 - evaluate() is exactly the documented bundle of the individual metrics.

Bundle.tla holds, per task, the fixed key sequence and for every key the public function, result
position and parameters forced by evaluate(); Params(fn) is each function's documented signature.
MC_C03 enumerates every subset (up to MaxSize; all sizes by simulation in the thorough tier) of each
task's keyword pool - all parameters of all bundled functions, plus an unrelated name and near-miss
spellings of the forced parameters - and exports, per entry, presence and the effective keywords.
The harness calls evaluate(x, **kw) on seeded inputs (incl. empty sides) and requires: the key
SEQUENCE of the table, every value a real scalar, and every value bit-identical to
fn(pre(x), **effective)[pos] computed through the public stage functions."""
import json
import numbers
import random
import struct

import numpy as np

from .. import tlc, gen, realdata
from ..common import Evidence, Reporter, import_mir_eval, Machinery

PROP = "C03"
VALUES = {"min_beat_time": 4.0, "f_measure_threshold": 0.125, "cemgil_sigma": 0.0625, "goto_threshold": 0.25, "goto_mu": 0.25,
          "goto_sigma": 0.25, "p_score_threshold": 0.25, "continuity_phase_threshold": 0.25, "continuity_period_threshold": 0.25,
          "bins": 21, "beta": 2.0, "trim": True, "frame_size": 0.25, "marginal": True, "base_frequency": 20.0, "hop": 1.0 / 64,
          "kind": "zero", "cent_tolerance": 60, "onset_tolerance": 0.0625, "pitch_tolerance": 60.0, "offset_ratio": 0.5,
          "offset_ratio_none": None, "offset_min_tolerance": 0.0625, "strict": True, "velocity_tolerance": 0.25,
          "similarity_metric": "cardinality_score", "thres": 0.6, "n": 1, "transitive": True, "duration": 12.0,
          "bogus": 0.123, "thresh": 0.123, "windows": 0.123, "offset_ration": 0.123, "transitiv": True, "frame_sizes": 0.123,
          "tolerance": 0.123}
WINDOW = {"onset": 0.125, "multipitch": 0.25, "hierarchy": 2.0, "alignment": 0.125, "segment": 1.0}
TOL = {"tempo": 0.125, "pattern": 0.25}
FORCED = {"0.5": 0.5, "3.0": 3.0, "0.75": 0.75, "None": None, "True": True, "False": False}


def value(task, name):
    if name == "window":
        return WINDOW[task]
    if name == "tol":
        return TOL[task]
    return VALUES[name]


def bits(x):
    return struct.pack("<d", float(x))


def is_scalar(v):
    return isinstance(v, (numbers.Real, np.floating, np.integer, np.bool_)) and not isinstance(v, (tuple, list, np.ndarray))


def direct(me, task, args, row):
    """values of every present entry computed through the public stage functions"""
    u = me.util
    mod = getattr(me, task)
    prekw = {n: value(task, n) for n in row["prekw"]}
    cache = {}

    def fcall(e):
        kw = {}
        for name, v in e["eff"]:
            kw[name] = value(task, name) if v == "user" else FORCED[v]
        key = (e["fn"], json.dumps(sorted(kw.items(), key=str), default=str))
        if key in cache:
            return cache[key]
        fn = e["fn"]
        if task == "beat":
            r, s = me.beat.trim_beats(args[0], **prekw), me.beat.trim_beats(args[1], **prekw)
            out = getattr(me.beat, fn.split(".")[1])(r, s, **kw)
        elif task == "segment":
            ri, rl = u.adjust_intervals(args[0], labels=list(args[1]), t_min=0.0)
            ei, el = u.adjust_intervals(args[2], labels=list(args[3]), t_min=0.0, t_max=ri.max())
            f = getattr(me.segment, fn.split(".")[1])
            out = f(ri, ei, **kw) if fn in ("segment.detection", "segment.deviation") else f(ri, rl, ei, el, **kw)
        elif task == "chord":
            c = me.chord
            ei, el = u.adjust_intervals(args[2], list(args[3]), args[0].min(), args[0].max(), c.NO_CHORD, c.NO_CHORD)
            if fn == "chord.seg":
                mr, mest = c.merge_chord_intervals(args[0], args[1]), c.merge_chord_intervals(ei, el)
                un, ov = c.underseg(mr, mest), c.overseg(mr, mest)
                out = (un, ov, min(ov, un))
            else:
                iv, xl, yl = u.merge_labeled_intervals(args[0], list(args[1]), ei, el)
                d = u.intervals_to_durations(iv)
                out = tuple(c.weighted_accuracy(getattr(c, r)(xl, yl), d) for r in
                            ("thirds", "thirds_inv", "triads", "triads_inv", "tetrads", "tetrads_inv", "root", "mirex", "majmin",
                             "majmin_inv", "sevenths", "sevenths_inv"))
        elif task == "melody":
            v = me.melody.to_cent_voicing(*args, **prekw)
            f = getattr(me.melody, fn.split(".")[1])
            out = f(v[0], v[2], **kw) if "voicing" in fn else f(*v, **kw)
        elif task == "hierarchy":
            ri = [u.adjust_intervals(np.asarray(iv), labels=list(l), t_min=0.0, t_max=None) for iv, l in zip(args[0], args[1])]
            t_end = max(float(np.asarray(iv).max()) for iv in args[0])
            ei = [u.adjust_intervals(np.asarray(iv), labels=list(l), t_min=0.0, t_max=t_end) for iv, l in zip(args[2], args[3])]
            if fn == "hierarchy.tmeasure":
                out = me.hierarchy.tmeasure([x[0] for x in ri], [x[0] for x in ei], **kw)
            else:
                out = me.hierarchy.lmeasure([x[0] for x in ri], [x[1] for x in ri], [x[0] for x in ei], [x[1] for x in ei], **kw)
        elif task == "transcription":
            f = getattr(me.transcription, fn.split(".")[1])
            out = f(*args, **kw) if "overlap" in fn else f(args[0], args[2], **kw)
        else:
            out = getattr(mod, fn.split(".")[1])(*args, **kw)
        cache[key] = out
        return out
    vals = []
    for e in row["entries"]:
        if not e["present"]:
            continue
        out = fcall(e)
        vals.append((e["key"], out[e["pos"] - 1] if isinstance(out, (tuple, list, np.ndarray)) else out))
    return vals


def run(tier, seed):
    me = import_mir_eval()
    rng = random.Random(seed)
    ev = Evidence(PROP, tier, seed)
    rep = Reporter(PROP)
    thorough = tier == "thorough"
    res = tlc.run("MC_C03", cfg="MC_C03_T" if thorough else "MC_C03", timeout=3400, heap="8g")
    rows = res["rows"]["ROW"]
    if len(rows) * 2 != res["distinct"]:
        raise Machinery("MC_C03: %d rows for %d states" % (len(rows), res["distinct"]))
    ev.tlc("MC_C03", res, "invariants ForcedWins, ReachExactly, NearMissInert, KeysDistinct over all keyword subsets")
    T = gen.catalogue(me)
    inputs = {}
    for name, t in T.items():
        shapes = ["random"] * 5 + [s for s in ("empty_est", "both_empty", "single", "duplicates") if s in t.shapes]
        if name == "segment":
            shapes = [s for s in shapes if s != "both_empty"]
        inputs[name] = []
        for k, sh in enumerate(shapes[: (9 if thorough else 7)]):
            a = t.gen(random.Random("%s-%d-%d" % (name, k, seed)), sh)
            inputs[name].append((sh, a))
            if name == "melody" and k == 0:
                v = np.array([1.0, 0.5] * 20)[: len(a[3])]
                r = np.array([1.0, 0.75] * 20)[: len(a[1])]
                inputs[name].append((sh + "+voicing", a + (v, r)))
    # a pattern pair whose occurrence similarities (2/3) lie between the two documented thresholds
    base = [(0.0, 60.0), (1.0, 62.0), (2.0, 64.0)]
    inputs["pattern"].append(("between-thresholds", ([[base, [(o + 8, m) for o, m in base]]],
                                                    [[base[:2], [(o + 8, m) for o, m in base[:2]]], [[(30.0, 70.0)]]])))
    # boundaries 0.75 s and 1.0 s away from the reference's: between the forced 0.5 s window and a user's window = 1.0
    inputs["segment"].append(("between-windows", (np.array([[0.0, 2.0], [2.0, 4.0], [4.0, 7.0]]), ["a", "b", "a"],
                                                 np.array([[0.0, 2.75], [2.75, 5.0], [5.0, 7.0]]), ["x", "y", "x"])))
    # note offsets between offset_ratio 0.2 (default) and 0.5 (user value) of the reference duration
    # exactly one beat survives the trimming on one side (a beat is a beat: nothing may be short-circuited)
    inputs["beat"].append(("one-surviving-reference-beat", (np.array([1.0, 4.0, 6.0]), np.array([5.5, 6.015625, 7.0]))))
    inputs["beat"].append(("one-surviving-estimated-beat", (np.array([5.5, 6.0, 7.0, 8.0]), np.array([2.0, 6.015625]))))
    inputs["transcription"].append(("between-offset-ratios", (np.array([[0.0, 1.0], [2.0, 3.0], [4.0, 4.5]]), np.array([440.0, 220.0, 330.0]),
                                                             np.array([[0.0, 1.375], [2.0, 3.125], [4.0, 4.5]]), np.array([440.0, 220.0, 330.0]))))
    inputs["transcription_velocity"].append(("between-offset-ratios", (np.array([[0.0, 1.0], [2.0, 3.0], [4.0, 4.5]]), np.array([440.0, 220.0, 330.0]), np.array([60.0, 80.0, 100.0]),
                                                                      np.array([[0.0, 1.375], [2.0, 3.125], [4.0, 4.5]]), np.array([440.0, 220.0, 330.0]), np.array([62.0, 79.0, 98.0]))))
    # the repository's own annotation fixtures: scored through evaluate() and directly, for a sample of the keyword subsets
    for name in T:
        for nm, ra in realdata.pairs(me, name, limit=None if thorough else 2):
            inputs[name].append(("real:" + nm, ra))
    n_calls = 0
    for ridx, row in enumerate(rows):
        task = row["task"]
        kw = {("offset_ratio" if n == "offset_ratio_none" else n): value(task, n) for n in row["kw"]}
        for sh, args in inputs[task]:
            if sh.startswith("real:") and row["kw"] and ((ridx + seed) % 9 or task in ("transcription_velocity", "hierarchy")):
                continue
            n_calls += 1
            detail = {"task": task, "kwargs": {k: (v if not isinstance(v, float) else v) for k, v in kw.items()}, "shape": sh}
            try:
                want = direct(me, task, args, row)
            except Exception as ex:  # noqa
                want = None           # the direct route rejects this input: evaluate must raise the same class
                wexc = type(ex).__name__
            try:
                got = getattr(me, task).evaluate(*args, **kw)
            except Exception as ex:  # noqa
                if want is not None:
                    rep.violation(task + ".evaluate", "evaluate-raised-" + type(ex).__name__, dict(detail, message=str(ex)[:200]))
                elif type(ex).__name__ != wexc:
                    rep.violation(task + ".evaluate", "exception-class-differs", dict(detail, evaluate=type(ex).__name__, direct=wexc))
                continue
            if want is None:
                rep.violation(task + ".evaluate", "evaluate-returned-where-metric-raises", dict(detail, direct=wexc))
                continue
            keys = list(got.keys())
            if keys != [k for k, _ in want]:
                rep.violation(task + ".evaluate", "key-sequence-differs", dict(detail, got=keys, expected=[k for k, _ in want]))
                continue
            for (k, w) in want:
                g = got[k]
                if not is_scalar(g):
                    rep.violation(task + ".evaluate", "value-not-a-real-scalar", dict(detail, key=k, got=repr(g)[:120]))
                    break
                if not is_scalar(w):
                    rep.violation(task + ".evaluate", "metric-value-not-a-real-scalar", dict(detail, key=k, got=repr(w)[:120]))
                    break
                if bits(g) != bits(w) and not (g != g and w != w):
                    if rep.violation(task + ".evaluate", "value-differs-from-direct-call:" + k,
                                     dict(detail, key=k, evaluate=float(g), direct=float(w))):
                        break          # (a recorded finding does not stop the comparison of the remaining keys)
            ev.case((task, sorted(row["kw"]), sh), nontrivial=len(row["kw"]) > 0)
    ev.cov["traces_validated_against_impl"] = n_calls
    ev.sample({"row": rows[len(rows) // 2]["task"], "kw": rows[len(rows) // 2]["kw"],
               "entries": rows[len(rows) // 2]["entries"][:3]})
    ev.cov["rule"] = ("every keyword subset (size <= %d) of every task's pool x seeded inputs incl. empty sides; evaluate() compared "
                      "key-by-key, bit-identically, with the table-driven direct calls (the repository's annotation fixtures for a sample of the subsets); distinct = distinct (task, subset, input); "
                      "non-trivial = non-empty keyword subset" % (4 if thorough else 2))
    ev.cov["exhaustive"] = True
    ev.d["assumptions"] = ["keyword values come from an in-range table in the harness; pre-processing is replayed through the public "
                           "functions named in the task documentation"]
    code = rep.finish()
    ev.write(violations=len(rep.violations))
    return code


def replay(path):
    v = json.load(open(path))
    print(json.dumps(v, indent=1)[:3000])
    return run("quick", 0)
