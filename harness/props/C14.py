"""C14 - valid annotations are always scored; malformed ones are rejected cleanly.

Validity.tla is the catalogue: per task the valid shapes (incl. the degenerate ones the property
names) and, per single fault, the entry points documented to check it with the exception class they
must raise.  MC_C14 enumerates the catalogue (and checks that it only ever prescribes ValueError /
InvalidChordException); the harness builds seeded valid inputs for each shape and runs EVERY entry
point of the task (evaluate + metric functions) - outcome must be "ok" - and applies each single-fault
corruption to a valid input and calls the catalogued entry points - outcome class must be exactly
the catalogued exception, never a score and never another exception type."""
import copy
import json
import random

import numpy as np

from .. import tlc, gen, realdata
from ..common import Evidence, Reporter, import_mir_eval, Machinery

PROP = "C14"


def outcome(f, *a, **k):
    try:
        f(*a, **k)
        return "ok", ""
    except Exception as ex:  # noqa
        return type(ex).__name__, str(ex)[:160]


# ------------------------------------------------------------------ valid inputs for the special shapes
def valid_input(me, T, task, shape, rng):
    t = T.get(task)
    if shape == "repository-fixture":
        ps = realdata.pairs(me, task)
        if not ps:
            raise Machinery("no repository fixture for " + task)
        return rng.choice(ps)[1], {"_evaluate_only": task in ("segment", "chord", "transcription_velocity", "hierarchy")}   # raw segment/chord files are aligned by evaluate() only
    if shape in t.shapes or shape in gen.SHAPES:
        return t.gen(rng, shape), {}
    if task == "segment":
        ri, rl, ei, el = gen.gen_segment_pair(rng, "random")
        T_ = ri.max()
        if shape == "est-starts-later":
            ei = ei.copy(); ei[0, 0] = min(0.125, ei[0, 1] / 2)           # evaluate() pads from 0
        elif shape == "est-ends-later":
            ei = np.vstack([ei, [[T_, T_ + 1.5]]]); el = el + ["z"]
        elif shape == "est-ends-earlier":
            if len(ei) > 1:
                ei, el = ei[:-1], el[:-1]
        elif shape == "boundary-at-ref-end":                           # an estimated segment starts exactly where the reference ends
            ei = np.vstack([ei, [[T_, T_ + 1.0]]]); el = el + ["z"]
        elif shape == "one-frame":
            ri, rl, ei, el = np.array([[0.0, 0.25]]), ["a"], np.array([[0.0, 0.25]]), ["b"]
        return (ri, rl, ei, el), {"frame_size": 0.25, "_evaluate_only": shape != "one-frame"}
    if task == "chord" and shape == "empty-label-lists":
        return (np.zeros((0, 2)), [], np.zeros((0, 2)), []), {"_metrics_only": True}
    if task == "chord":
        ri, rl, ei, el = gen.gen_chord_pair(rng, "random")
        lo, hi = ri.min(), ri.max()
        k = rng.randint(1, 3)

        def seg(a, b, n):
            n = max(1, min(n, int(round((b - a) / 0.25))))
            pts = sorted(rng.sample(range(1, int(round((b - a) / 0.25))), n - 1)) if n > 1 else []
            bb = [a] + [a + p * 0.25 for p in pts] + [b]
            return np.array([[bb[i], bb[i + 1]] for i in range(len(bb) - 1)])
        if shape == "est-starts-earlier":
            ri = ri + 1.0; lo, hi = lo + 1.0, hi + 1.0
            ei = seg(lo - 0.75, hi, k + 1)
        elif shape == "est-ends-later":
            ei = seg(lo, hi + 1.25, k + 1)
        elif shape == "est-ends-earlier":
            ei = seg(lo, hi - 0.25, k) if hi - lo > 0.5 else ei
        elif shape == "boundary-at-ref-start":                         # an estimated interval ENDS exactly at the reference start
            ri = ri + 1.0; lo, hi = lo + 1.0, hi + 1.0
            ei = np.vstack([[[lo - 1.0, lo]], seg(lo, hi, k)])
        elif shape == "boundary-at-ref-end":                           # an estimated interval STARTS exactly at the reference end
            ei = np.vstack([seg(lo, hi, k), [[hi, hi + 0.75]]])
        el = [rng.choice(gen.CHORDS) for _ in ei]
        return (ri, rl, ei, el), {"_evaluate_only": True}
    if task == "hierarchy":
        if shape == "window-equals-frame-size":
            return gen.gen_hierarchy(rng, "random"), {"frame_size": 0.25, "window": 0.25}
        if shape == "one-frame":
            iv = [np.array([[0.0, 0.25]])]
            return (iv, [["a"]], [x.copy() for x in iv], [["b"]]), {"frame_size": 0.25}
    if task == "melody":
        where, what = shape.split("+")
        rt, rf, et, ef = gen.gen_melody(rng, rng.choice(["random", "disjoint"]))
        if where.startswith("est") or where.startswith("both"):
            et = et + (et[1] - et[0] if len(et) > 1 else 1.0 / 64)
        if where.startswith("ref") or where.startswith("both"):
            rt = rt + (rt[1] - rt[0] if len(rt) > 1 else 1.0 / 64)
        kw = {"_evaluate_only": True}
        if what in ("est_voicing", "both"):
            kw["est_voicing"] = np.array([rng.choice([0.0, 0.5, 1.0]) for _ in ef])
        if what in ("ref_reward", "both"):
            kw["ref_reward"] = np.array([rng.choice([0.0, 0.5, 1.0]) for _ in rf])
        return (rt, rf, et, ef), kw
    if task == "multipitch" and shape in ("no-frames-at-all", "ref-without-frames", "est-without-frames"):
        rt, rf, et, ef = gen.gen_multipitch(rng, "random")
        E = np.array([])
        if shape != "est-without-frames":
            rt, rf = E, []
        if shape != "ref-without-frames":
            et, ef = E.copy(), []
        return (rt, rf, et, ef), {}
    if task == "alignment":
        ref, est = gen.gen_alignment(rng, "random")
        if shape == "duration-equals-last-timestamp":                  # the last timestamp may coincide with the end of the audio
            return (ref, est), {"duration": float(max(ref.max(), est.max()))}
    raise Machinery("no generator for %s/%s" % (task, shape))


def entry_points(me, T, task):
    """(name, callable taking the evaluate-argument tuple and kwargs)"""
    t = T.get(task)
    eps = [(task + ".evaluate", lambda a, kw: t.evaluate(*a, **kw))]
    for (mn, fn, sel, kws) in t.metrics:
        if mn == "melody.to_cent_voicing":
            continue
        eps.append((mn, (lambda fn, sel: lambda a, kw: fn(*sel(a), **{k: v for k, v in kw.items()
                                                                      if k in fn.__code__.co_varnames[:fn.__code__.co_argcount]}))(fn, sel)))
    return eps


# ------------------------------------------------------------------ single-fault corruptions
def faulty_call(me, T, task, fault, fn_name, rng):
    """build a valid input, corrupt it, call fn_name; returns (outcome class, message)"""
    mod_name, short = fn_name.split(".")
    fn = getattr(getattr(me, mod_name), short)
    t = T.get(task)
    if task == "chord" and fault == "bad-pitch-class":
        return outcome(fn, rng.choice(["H", "c", "C+", "1", "Cb#x"]))
    if task == "chord" and fault == "bad-scale-degree":
        return outcome(fn, rng.choice(["14", "0", "x3", "b", "3b"]))
    if task == "util":
        iv, labs = gen.gen_segmentation(rng, "random")
        if fault == "sample-times-decreasing":
            return outcome(fn, iv, labs, np.array([1.0, 0.5, 0.75]))
        if fault == "boundaries-not-strictly-increasing":
            return outcome(fn, np.array(rng.choice([[0.0, 1.0, 1.0, 2.0], [0.0, 2.0, 1.0]])))
        if fault == "annotations-not-aligned":
            iv2 = iv.copy()
            iv2[-1, 1] += 0.5
            return outcome(fn, iv, labs, iv2, list(labs))
    if task in ("beat", "onset"):
        ref, est = t.gen(rng, "random")
        ref, est = ref + 6.0, est + 6.0
        if len(ref) < 2:
            ref = np.array([6.0, 7.0, 8.0])
        if len(est) < 2:
            est = np.array([6.5, 7.5, 8.5])
        side, kind = fault.split("-", 1)
        x = ref if side == "ref" else est
        if kind == "not-1d":
            x = x.reshape(-1, 1)
        elif kind == "time-too-large":
            x = np.append(x, 30000.5)
        elif kind == "unsorted":
            x = x[::-1].copy() if x[0] != x[-1] else np.array([9.0, 7.0])
        return outcome(fn, *( (x, est) if side == "ref" else (ref, x) ))
    if task == "segment":
        ri, rl, ei, el = gen.gen_segment_pair(rng, "random")
        if len(ri) < 2:
            ri, rl = np.array([[0.0, 1.0], [1.0, ri.max() if ri.max() > 1 else 2.0]]), ["a", "b"]
            ei = ei * (ri.max() / ei.max())
        kw = {"frame_size": 0.25} if "frame_size" in fn.__code__.co_varnames else {}
        if fault == "ref-not-nx2":
            ri = np.hstack([ri, ri[:, :1]])
        elif fault == "est-negative-time":
            ei = ei.copy(); ei[0, 0] = -0.5
        elif fault == "ref-nonpositive-duration":
            ri = ri.copy(); ri[-1, 1] = ri[-1, 0]
        elif fault == "est-nonpositive-duration":
            ei = ei.copy(); ei[0, 1] = ei[0, 0] - 0.25 if ei[0, 0] > 0 else ei[0, 0]
        elif fault == "ref-labels-length":
            rl = rl + ["extra"]
        elif fault == "est-labels-length":
            el = el[:-1]
        elif fault == "ref-not-start-at-0":
            ri = ri + 0.5; ei = np.vstack([ei, [[ei.max(), ei.max() + 0.5]]]); el = el + ["q"]
        elif fault == "ends-differ":
            ei = np.vstack([ei, [[ei.max(), ei.max() + 0.75]]]); el = el + ["q"]
        if short in ("detection", "deviation"):
            return outcome(fn, ri, ei)
        return outcome(fn, ri, rl, ei, el, **kw)
    if task == "chord":
        c = me.chord
        ri, rl, ei, el = gen.gen_chord_pair(rng, "random")
        n = min(len(rl), len(el))
        a, b = list(rl[:n]), list(el[:n])
        bad = rng.choice(["H:maj", "C:maj(", "c:min", "C::7", "C:maj/14", "", "C:majj", "C/"])
        if fault == "unequal-lengths":
            return outcome(fn, a + ["C"], b)
        if fault in ("bad-ref-label", "bad-est-label"):
            if short == "evaluate":
                if fault == "bad-ref-label":
                    rl = list(rl); rl[rng.randrange(len(rl))] = bad
                else:
                    # an estimated interval that overlaps the reference's span (what lies outside is cropped before
                    # any label is looked at, and is not claimed)
                    inside = [i for i in range(len(ei)) if min(ei[i, 1], ri.max()) > max(ei[i, 0], ri.min())]
                    el = list(el); el[rng.choice(inside)] = bad
                return outcome(fn, ri, rl, ei, el)
            if fault == "bad-ref-label":
                a[rng.randrange(n)] = bad
            else:
                b[rng.randrange(n)] = bad
            return outcome(fn, a, b)
        if fault == "weights-length":
            return outcome(fn, np.array([1.0, 0.0, 1.0]), np.array([1.0, 2.0]))
        if fault == "negative-weight":
            return outcome(fn, np.array([1.0, 0.0, 1.0]), np.array([1.0, -0.5, 2.0]))
        lo, hi = ri.min(), ri.max()
        e2 = me.util.adjust_intervals(ei, None, lo, hi)[0]
        if fault == "ref-overlap":
            r2 = np.vstack([ri, [[ri[-1, 0] + (ri[-1, 1] - ri[-1, 0]) / 2, hi + 0.5]]]) if len(ri) else ri
            r2 = np.array(sorted(r2.tolist()))
            return outcome(fn, r2, e2)
        if fault == "est-nonpositive-duration":
            e2 = e2.copy(); e2[-1, 1] = e2[-1, 0]
            return outcome(fn, ri, e2)
        if fault == "ref-not-nx2":
            return outcome(fn, np.hstack([ri, ri[:, :1]]), e2)
    if task == "melody":
        args = t.gen(rng, "random")
        rv, rc, evv, ec = me.melody.to_cent_voicing(*args)
        if fault == "voicing-length":
            evv = evv[:-1] if len(evv) > 1 else np.append(evv, 1.0)
            if short == "voicing_measures":
                return outcome(fn, rv, evv)
            return outcome(fn, rv, rc, evv, ec)
        if fault == "voicing-range":
            evv = evv.copy(); evv[0] = 1.5
            if rng.random() < 0.5:
                rv = rv.copy(); rv[-1] = -0.25
            if short == "voicing_measures":
                return outcome(fn, rv, evv)
            return outcome(fn, rv, rc, evv, ec)
        if fault == "cent-length":
            return outcome(fn, rv, rc, evv, np.append(ec, 0.0))
    if task == "multipitch":
        rt, rf, et, ef = t.gen(rng, "random")
        if len(rt) < 2:
            rt, rf = np.array([0.0, 0.25]), [np.array([440.0]), np.array([220.0])]
            et, ef = rt.copy(), [x.copy() for x in rf]
        if fault == "ref-length-mismatch":
            rf = rf[:-1]
        elif fault == "est-length-mismatch":
            ef = ef + [np.array([440.0])]
        elif fault == "freq-too-low":
            ef = [x.copy() for x in ef]; ef[0] = np.append(ef[0], 10.0)
        elif fault == "freq-too-high":
            rf = [x.copy() for x in rf]; rf[-1] = np.append(rf[-1], 6000.0)
        elif fault == "freq-2d":
            ef = [x.copy() for x in ef]; ef[0] = np.array([[440.0, 220.0]])
        elif fault == "time-2d":
            rt = rt.reshape(-1, 1)
        elif fault == "time-unsorted":
            if len(et) < 2:
                et, ef = rt.copy(), [x.copy() for x in rf]
            if len(et) < 2:                          # a single frame cannot be out of order: use two
                et, ef = np.array([0.0, 0.25]), [np.array([440.0]), np.array([220.0])]
            et = et[::-1].copy()
        return outcome(fn, rt, rf, et, ef)
    if task in ("transcription", "transcription_velocity"):
        vel = task == "transcription_velocity"
        a = list(gen.gen_notes(rng, "random", velocity=vel))
        if len(a[0]) < 2:
            a = list(gen.gen_notes(random.Random(rng.random()), "identical", velocity=vel))
        ri, rp = a[0], a[1]
        ei, ep = (a[3], a[4]) if vel else (a[2], a[3])
        rv, evv = (a[2], a[5]) if vel else (None, None)
        if fault == "ref-pitch-length":
            rp = rp[:-1] if len(rp) > 1 else np.append(rp, 440.0)
        elif fault == "est-pitch-length":
            ep = np.append(ep, 440.0)
        elif fault == "nonpositive-pitch":
            if rng.random() < 0.5 and len(ep):
                ep = ep.copy(); ep[0] = 0.0
            else:
                rp = rp.copy(); rp[-1] = -220.0
        elif fault == "ref-nonpositive-duration":
            ri = ri.copy(); ri[0, 1] = ri[0, 0]
        elif fault == "est-not-nx2":
            ei = np.hstack([ei, ei[:, :1]]) if len(ei) else np.zeros((1, 3))
        elif fault == "est-negative-time":
            ei = ei.copy(); ei[0] = [-0.5, 0.25]
        elif fault == "ref-velocity-length":
            rv = np.append(rv, 64.0)
        elif fault == "est-velocity-length":
            evv = evv[:-1] if len(evv) > 1 else np.append(evv, 64.0)
        elif fault == "negative-velocity":
            evv = evv.copy(); evv[0] = -1.0
        elif fault == "negative-ref-velocity":
            rv = rv.copy(); rv[-1] = -0.5
        if vel:
            return outcome(fn, ri, rp, rv, ei, ep, evv)
        if short in ("onset_precision_recall_f1", "offset_precision_recall_f1"):
            return outcome(fn, ri, ei)
        return outcome(fn, ri, rp, ei, ep)
    if task == "tempo":
        ref, w, est = t.gen(rng, "random")
        kw = {}
        if fault == "ref-not-two":
            ref = np.append(ref, 100.0)
        elif fault == "est-not-two":
            est = est[:1]
        elif fault == "negative-tempo":
            est = est.copy(); est[0] = -60.0
        elif fault == "nan-tempo":
            ref = ref.copy(); ref[1] = np.nan
        elif fault == "ref-both-zero":
            ref = np.zeros(2)
        elif fault == "weight-above-1":
            w = 1.25
        elif fault == "weight-negative":
            w = -0.25
        elif fault == "tol-out-of-range":
            kw = {"tol": rng.choice([-0.1, 1.5])}
        return outcome(fn, ref, w, est, **kw)
    if task == "key":
        good = rng.choice(["C major", "a minor", "F# other"])
        bad = {"bad-format": rng.choice(["Cmajor", "C major scale", "major"]), "bad-tonic": rng.choice(["H major", "cb minor", "e# major"]),
               "bad-mode": rng.choice(["C maj", "D Major", "E dorian"]), "x-with-mode": "X major", "empty-string": ""}[fault]
        return outcome(fn, *((bad, good) if rng.random() < 0.5 else (good, bad)))
    if task == "pattern":
        ref, est = t.gen(rng, "random")
        if not est:
            est = copy.deepcopy(ref)
        if fault == "pattern-without-occurrence":
            if rng.random() < 0.5:
                ref = ref + [[]]
            else:
                est = est + [[]]
        elif fault == "bad-onset-midi-tuple":
            est = copy.deepcopy(est); est[0][0][0] = (1.0, 60.0, 3.0)
        elif fault == "unknown-similarity-metric":
            if not ref:
                ref = copy.deepcopy(est)
            return outcome(fn, ref, est, similarity_metric="normalised_matching_score")
        return outcome(fn, ref, est)
    if task == "alignment":
        ref, est = t.gen(rng, "random")
        kw = {}
        if fault == "not-ndarray":
            est = est.tolist()
        elif fault == "not-1d":
            ref = ref.reshape(-1, 1)
        elif fault == "empty-ref":
            ref, est = np.array([]), np.array([])
        elif fault == "unequal-counts":
            est = np.append(est, est[-1] + 1.0)
        elif fault == "ref-decreasing":
            ref = ref[::-1].copy()
            if np.all(np.diff(ref) >= 0):            # all timestamps equal: reversing does not make it decreasing
                ref = np.arange(len(ref), 0, -1.0)
        elif fault == "est-decreasing":
            est = est[::-1].copy()
            if np.all(np.diff(est) >= 0):
                est = np.arange(len(est), 0, -1.0)
        elif fault == "negative-time":
            est = est.copy(); est[0] = -0.5
        elif fault == "ref-negative-time":
            ref = ref.copy(); ref[0] = -0.25
        elif fault == "ref-not-ndarray":
            ref = ref.tolist()
        elif fault == "est-not-1d":
            est = est.reshape(-1, 1)
        elif fault == "ref-all-identical-without-duration":
            ref = np.full(len(ref), 1.5)
        elif fault == "duration-nonpositive":
            kw = {"duration": rng.choice([0.0, -3.0])}
        elif fault == "duration-below-timestamp":
            kw = {"duration": float(max(ref.max(), est.max())) - 0.5}
        return outcome(fn, ref, est, **kw)
    if task == "hierarchy":
        ri, rl, ei, el = t.gen(rng, "random")
        kw = {"frame_size": 0.25}
        if fault == "frame-size-nonpositive":
            kw = {"frame_size": rng.choice([0.0, -0.5])}
        elif fault == "frame-size-exceeds-window":
            kw = {"frame_size": 1.0, "window": 0.5}
        elif fault == "window-zero":
            kw = {"frame_size": 0.25, "window": rng.choice([0, 0.0])}
        elif fault == "level-ends-differ":
            ri = [x.copy() for x in ri] + [np.array([[0.0, ri[0].max() + 1.0]])]; rl = rl + [["z"]]
        elif fault == "level-not-start-at-0":
            ri = [x.copy() for x in ri] + [np.array([[0.5, ri[0].max()]])]; rl = rl + [["z"]]
        if short == "tmeasure":
            return outcome(fn, ri, ei, **kw)
        return outcome(fn, ri, rl, ei, el, **kw)
    if task == "separation":
        g = np.random.RandomState(rng.randint(0, 10 ** 6))
        ref, est = g.randn(2, 1100), g.randn(2, 1100)
        if fault == "shape-mismatch":
            est = est[:, :-5]
        elif fault == "too-many-dimensions":
            ref, est = ref.reshape(2, 550, 2, 1), est.reshape(2, 550, 2, 1)
        elif fault == "silent-reference":
            ref = ref.copy(); ref[1] = 0.0
        elif fault == "silent-estimate":
            est = est.copy(); est[0] = 0.0
        elif fault == "too-many-sources":
            ref, est = g.randn(101, 8), g.randn(101, 8)
        kw = {"window": 600, "hop": 300} if "framewise" in short else {}
        return outcome(fn, ref, est, **kw)
    raise Machinery("no corruption for %s/%s" % (task, fault))


def run(tier, seed):
    me = import_mir_eval()
    rng = random.Random(seed)
    ev = Evidence(PROP, tier, seed, level="fault_enumeration")
    rep = Reporter(PROP)
    thorough = tier == "thorough"
    res = tlc.run("MC_C14", timeout=1200)
    rows = res["rows"]["ROW"]
    if len(rows) * 2 != res["distinct"]:
        raise Machinery("MC_C14: %d rows for %d states" % (len(rows), res["distinct"]))
    ev.tlc("MC_C14", res, "the validity catalogue; invariants CleanRejection, EveryTaskHasValid")
    T = gen.catalogue(me)
    reps = 30 if thorough else 6
    n = 0
    # fixed witness of the recorded finding's input class (every run exercises it, whatever the seed)
    w_ref, w_est = np.array([7.5, 7.5, 7.5]), np.array([7.5, 8.0])
    for name, f in (("beat.p_score", me.beat.p_score), ("beat.evaluate", me.beat.evaluate)):
        oc, msg = outcome(f, w_ref, w_est)
        n += 1
        if oc != "ok":
            rep.violation(name, "all-reference-beats-coincide/raised-" + oc, {"task": "beat", "shape": "witness", "message": msg,
                                                                              "args": [w_ref.tolist(), w_est.tolist()]})
    for row in rows:
        task = row["task"]
        if row["kind"] == "valid":
            eps = entry_points(me, T, task)
            for k in range(reps):
                r = random.Random("%s-%s-%d-%d" % (task, row["shape"], k, seed))
                args, kw = valid_input(me, T, task, row["shape"], r)
                ev_only = kw.pop("_evaluate_only", False)
                met_only = kw.pop("_metrics_only", False)
                for name, f in eps:
                    if ev_only and not name.endswith(".evaluate"):
                        continue
                    if met_only and (name.endswith(".evaluate") or name.endswith("merge_chord_intervals")):
                        continue
                    if task == "segment" and row["shape"] in ("empty_ref", "both_empty"):
                        continue
                    n += 1
                    oc, msg = outcome(f, args, dict(kw))
                    if oc != "ok":
                        tag = row["shape"] + "/raised-" + oc
                        if task == "beat" and len(args[0]) > 1 and np.unique(args[0]).size == 1:
                            tag = "all-reference-beats-coincide/raised-" + oc
                        rep.violation(name, tag, {"task": task, "shape": row["shape"], "kwargs": kw, "message": msg,
                                                  "args": json.loads(json.dumps(args, default=lambda o: o.tolist() if hasattr(o, "tolist") else str(o)))})
                    ev.case((name, row["shape"], k), nontrivial=True)
        else:
            for k in range(reps):
                r = random.Random("%s-%s-%s-%d-%d" % (task, row["shape"], row["fn"], k, seed))
                n += 1
                oc, msg = faulty_call(me, T, task, row["shape"], row["fn"], r)
                if oc != row["expect"]:
                    rep.violation(row["fn"], row["shape"] + ("/returned-a-score" if oc == "ok" else "/raised-" + oc),
                                  {"task": task, "fault": row["shape"], "expected": row["expect"], "got": oc, "message": msg, "rep": k})
                ev.case((row["fn"], row["shape"], k), nontrivial=True)
    ev.cov["traces_validated_against_impl"] = n
    ev.sample({"catalogue_row": rows[10]})
    ev.sample({"catalogue_row": rows[-3]})
    ev.cov["rule"] = ("every (task, valid shape) x every entry point and every (fault, catalogued entry point), %d seeded inputs each; "
                      "outcome class compared with the catalogue; distinct = distinct (entry point, shape or fault, seed)" % reps)
    ev.cov["exhaustive"] = True
    ev.d["assumptions"] = ["the catalogue lists only checks a task's validator is documented to perform; inputs that break an "
                           "undocumented assumption (lists instead of arrays, non-string keys) are not generated",
                           "segment.evaluate with an empty REFERENCE and alignment PCS on a single timestamp are treated as "
                           "outside the valid domain (no span / no segment to score); see DESIGN.md"]
    code = rep.finish()
    ev.write(violations=len(rep.violations))
    return code


def replay(path):
    v = json.load(open(path))
    print(json.dumps(v, indent=1)[:3000])
    return run("quick", 0)
