"""C15 - evaluation is pure: inputs are never modified, results are repeatable.

Session.tla is the specification (heap' = heap on every call; the outcome is a function of the
call).  TLC enumerates every history up to MaxLen over the function alphabet (repeat, reversed,
interleaved across tasks, aliased arguments); the harness executes each history on the real
library with the recorder attached to EVERY function of every mir_eval module, twice per call
under two different fillings of "uninitialised" memory (numpy.empty poisoned), plus long seeded
random histories over many inputs.  Every recorded call of a public function - top level or
nested - becomes a record (argument digests before/after, call key, outcome digest) and
Trace_Session judges them: argument-modified / same-call-different-outcome."""
import copy
import hashlib
import json
import random
import struct
import types

import numpy as np

from .. import tlc, trace, gen, realdata
from ..common import Evidence, Reporter, import_mir_eval, Machinery
from ..recorder import Recorder, public_functions

PROP = "C15"
MODS = ["alignment", "beat", "chord", "hierarchy", "key", "melody", "multipitch", "onset", "pattern", "segment",
        "separation", "sonify", "tempo", "transcription", "transcription_velocity", "util"]


# ----------------------------------------------------------------------------- canonical digests
def canon(x, h, depth=0):
    if isinstance(x, np.ndarray):
        h.update(b"A" + x.dtype.str.encode() + str(x.shape).encode())
        if x.dtype == object:
            for v in x.ravel().tolist():
                canon(v, h, depth + 1)
        else:
            h.update(np.ascontiguousarray(x).tobytes())
    elif isinstance(x, (list, tuple)):
        h.update(b"L" if isinstance(x, list) else b"T")
        h.update(str(len(x)).encode())
        for v in x:
            canon(v, h, depth + 1)
    elif isinstance(x, dict):
        h.update(b"D" + str(len(x)).encode())
        for k, v in x.items():
            canon(k, h, depth + 1)
            canon(v, h, depth + 1)
    elif isinstance(x, (set, frozenset)):
        # a set is its elements, not their iteration order (which depends on the insertion history)
        h.update(b"Z" + str(len(x)).encode())
        for d in sorted(digest(v) for v in x):
            h.update(d)
    elif isinstance(x, bool):
        h.update(b"b1" if x else b"b0")
    elif isinstance(x, float):
        h.update(b"F" + struct.pack("<d", x))
    elif isinstance(x, np.generic):
        h.update(b"G" + x.dtype.str.encode() + x.tobytes())
    elif isinstance(x, (int, str, type(None))):
        h.update(b"S" + repr(x).encode())
    elif isinstance(x, types.FunctionType):
        h.update(b"f" + x.__name__.encode())
    else:
        h.update(b"R" + repr(x).encode())


def digest(x):
    h = hashlib.md5()
    canon(x, h)
    return h.digest()


class Interner:
    def __init__(self):
        self.t = {}

    def __call__(self, b):
        return self.t.setdefault(b, len(self.t) + 1)


# ----------------------------------------------------------------------------- poisoned allocator
class Poison:
    """numpy.empty returns deterministic garbage of our choosing for the duration of a call: a result
    that depends on an uninitialised cell differs between two fillings."""

    def __init__(self, value):
        self.value = value

    def __enter__(self):
        self.orig, self.orig_like = np.empty, np.empty_like
        val, orig, orig_like = self.value, np.empty, np.empty_like

        def empty(*a, **k):
            r = orig(*a, **k)
            if r.dtype.kind in "fc":
                r.fill(val)
            elif r.dtype.kind in "iu":
                r.fill(int(val) % 97)
            return r

        def empty_like(*a, **k):
            r = orig_like(*a, **k)
            if r.dtype.kind in "fc":
                r.fill(val)
            return r
        np.empty, np.empty_like = empty, empty_like
        return self

    def __exit__(self, *a):
        np.empty, np.empty_like = self.orig, self.orig_like
        return False


# ----------------------------------------------------------------------------- calls of the alphabet
def util_bundle(me, rng):
    """a bundle of helper calls on caller-owned lists/arrays (the 'util' letter of the alphabet)"""
    u = me.util
    iv, labs = gen.gen_segmentation(rng, "random", start=rng.choice([0, 1, 2]))
    iv2, labs2 = gen.gen_segmentation(rng, "random", tmax=int(round(iv[-1, 1] / 0.25)), start=int(round(iv[0, 0] / 0.25)))
    ev = np.array(sorted(rng.sample(range(0, 40), 5)), dtype=float) * 0.25
    elabs = ["e%d" % i for i in range(5)]
    tmax = float(iv[-1, 1])
    calls = [
        (u.adjust_intervals, (iv, labs), dict(t_min=None, t_max=tmax + 1.0)),
        (u.adjust_intervals, (iv, labs), dict(t_min=0.0, t_max=tmax + 0.5)),
        (u.adjust_intervals, (iv, labs), dict(t_min=float(iv[0, 0]) + 0.25, t_max=None)),
        (u.adjust_intervals, (iv,), dict(t_min=0.0)),
        (u.adjust_events, (ev, elabs), dict(t_min=0.0, t_max=12.0)),
        (u.adjust_events, (ev, elabs), dict(t_min=None, t_max=float(ev[-1]) + 1)),
        (u.merge_labeled_intervals, (iv, labs, iv2, labs2), {}),
        (u.intervals_to_samples, (iv, labs), dict(sample_size=0.25)),
        (u.interpolate_intervals, (iv, labs, ev), dict(fill_value="F")),
        (u.sort_labeled_intervals, (iv[::-1], labs[::-1]), {}),
        (u.intervals_to_boundaries, (iv,), {}),
        (u.boundaries_to_intervals, (ev,), {}),
        (u.index_labels, (labs,), {}),
        (u.generate_labels, (ev,), {}),
        (u.match_events, (ev, ev + 0.25, 0.25), {}),
        (u.intervals_to_durations, (iv,), {}),
        (u.validate_intervals, (iv,), {}),
        (u.validate_events, (ev,), {}),
        (u.f_measure, (0.5, 0.25), dict(beta=2.0)),
        (u.hz_to_midi, (np.array([220.0, 440.0]),), {}),
        (u.midi_to_hz, (np.array([57.0, 69.0]),), {}),
        (me.chord.merge_chord_intervals, (iv, [rng.choice(["C", "C:maj", "G"]) for _ in labs]), {}),
        (me.chord.encode_many, (["C:maj", "G:min7/b3", "N"],), {}),
        # extended shorthands with and without explicit degrees, before and after one another
        (me.chord.encode, ("D:9",), {"reduce_extended_chords": True}),
        (me.chord.encode, ("F:maj13",), {"reduce_extended_chords": True}),
        (me.chord.split, ("C:9(13)",), {"reduce_extended_chords": True}),
        (me.chord.encode, ("A:min11(*b3,#4)/5",), {"reduce_extended_chords": True}),
        (me.chord.encode, ("E:maj13(*3)",), {"reduce_extended_chords": True}),
        (me.chord.encode, ("D:9",), {"reduce_extended_chords": True}),
        (me.chord.encode, ("F:maj13",), {"reduce_extended_chords": True}),
        (me.chord.encode_many, (["D:9", "B:min11", "F:maj13"], True), {}),
        (me.chord.rotate_bitmaps_to_roots, (np.eye(12, dtype=int)[:3], np.array([1, 5, 11])), {}),
        (me.melody.freq_to_voicing, (np.array([0.0, 220.0, -110.0]), np.array([1.0, 0.5, 0.25])), {}),
        (me.melody.resample_melody_series, (np.arange(4) * 0.5, np.array([0.0, 100.0, 200.0, 0.0]),
                                            np.array([0.0, 1.0, 1.0, 0.0]), np.arange(7) * 0.25), {}),
        (me.multipitch.resample_multipitch, (np.arange(3) * 0.5, [np.array([440.0]), np.array([]), np.array([220.0, 330.0])],
                                             np.arange(5) * 0.3), {}),
        (me.beat.trim_beats, (ev,), dict(min_beat_time=2.0)),
    ]
    return calls


def sonify_bundle(me, rng):
    s = me.sonify
    t = np.array(sorted(rng.sample(range(1, 30), 4)), dtype=float) * 0.01
    iv = np.array([[0.0, 0.1], [0.1, 0.25]])
    gram = np.abs(np.random.RandomState(rng.randint(0, 999)).randn(3, 4))
    return [
        (s.clicks, (t, 2000), {}),
        (s.clicks, (t, 2000), dict(length=900)),
        (s.time_frequency, (gram, np.array([220.0, 440.0, 660.0]), np.arange(4) * 0.05, 2000), dict(length=500)),
        (s.pitch_contour, (np.arange(5) * 0.05, np.array([220.0, 230.0, 0.0, -200.0, 210.0]), 2000), dict(length=600)),
        (s.pitch_contour, (np.arange(6) * 0.05, np.array([220.0, np.nan, np.nan, 230.0, np.inf, 210.0]), 2000), dict(length=600)),
        (s.time_frequency, (gram, np.array([220.0, 440.0, 660.0]), np.arange(4) * 0.05, 2000), dict(length=500, function=np.cos)),
        (s.time_frequency, (gram, np.array([220.0, 440.0, 660.0]), np.arange(4) * 0.05, 2000), dict(length=500, function=np.sign)),
        (s.time_frequency, (gram, np.array([220.0, 440.0, 660.0]), np.arange(4) * 0.05, 2000), dict(length=500)),
        (s.chroma, (np.abs(np.random.RandomState(3).randn(12, 3)), np.arange(3) * 0.05, 2000), dict(length=400, function=np.cos)),
        (s.chroma, (np.abs(np.random.RandomState(3).randn(12, 3)), np.arange(3) * 0.05, 2000), dict(length=400)),
        (s.chords, (["C:maj", "N"], iv, 2000), dict(length=600)),
        # branches found by line coverage: clicks running past the requested length, boundary times instead of intervals and
        # no explicit length, a single time frame (constant interpolator), amplitudes for the pitch contour
        (s.clicks, (np.array([0.01, 0.2, 0.4]), 2000), dict(length=420)),
        (s.clicks, (np.array([0.01, 0.2, 0.4]), 2000), dict(length=380, click=np.ones(50))),
        (s.time_frequency, (gram[:, :3], np.array([220.0, 440.0, 660.0]), np.array([0.0, 0.05, 0.1, 0.15]), 2000), {}),
        (s.time_frequency, (gram[:, :1], np.array([220.0, 440.0, 660.0]), np.array([[0.0, 0.1]]), 2000), dict(length=300)),
        (s.pitch_contour, (np.arange(5) * 0.05, np.array([220.0, 230.0, 0.0, 200.0, 210.0]), 2000),
         dict(amplitudes=np.array([1.0, 0.5, 0.0, 0.25, 1.0]))),
        (s.pitch_contour, (np.arange(5) * 0.05, np.array([220.0, 230.0, 0.0, 200.0, 210.0]), 2000), dict(kind="nearest")),
    ]


def separation_bundle(me, rng, heavy):
    sp = me.separation
    ref, est = gen.gen_sources(rng, "random")
    out = [(sp.bss_eval_sources, (ref, est), {}),
           (sp.bss_eval_sources_framewise, (ref, est), dict(window=ref.shape[1] // 2, hop=ref.shape[1] // 4))]
    # a window with a silent source: every metric of that window is NaN (never uninitialised memory)
    r3 = np.stack([ref, 0.5 * ref + 0.1], axis=2)[:2]
    e3 = np.stack([est, 0.4 * est + 0.05], axis=2)[:2]
    r3s = r3.copy()
    r3s[0, : r3.shape[1] // 2, :] = 0.0
    out.append((sp.bss_eval_images_framewise, (r3s, e3), dict(window=r3.shape[1] // 2, hop=r3.shape[1] // 2)))
    if heavy:
        out.append((sp.bss_eval_images, (r3, e3), {}))
        out.append((sp.evaluate, (ref, est), {}))
    return out


def task_calls(t, args, kwv, alias):
    """calls for one letter of the alphabet: evaluate + every metric, on the SAME caller-owned objects"""
    a = list(args)
    if alias:                      # the same object as reference and estimate
        h = len(a) // 2
        if t.name == "tempo":
            a = [a[0], a[1], a[0]]
        elif t.name == "melody":
            a = [a[0], a[1], a[0], a[1]]
        else:
            a = a[:h] + a[:h]
    a = tuple(a)
    kw_eval = {}
    if kwv == 2:
        # the keyword letter: evaluate() with every documented keyword of the task set to a non-default value
        # (what an order-dependent keyword filter would get wrong); nothing else, to keep histories short
        return [(t.evaluate, a, dict(t.kw_pool))]
    calls = [(t.evaluate, a, kw_eval)]
    if t.name == "melody":
        v = np.array([1.0, 0.5] * 20)[: len(a[3])]
        r = np.array([1.0, 0.75] * 20)[: len(a[1])]
        calls.append((t.evaluate, a + (v, r), dict(kw_eval)))
    for (mn, fn, sel, kws) in t.metrics:
        kw = kws[(kwv - 1) % len(kws)]
        calls.append((fn, sel, kw, a))           # selector applied lazily on the same objects
    return calls


POISONS = (123456.789, -0.001953125)


def run_calls(calls, poison_vals=POISONS):
    for c in calls:
        if len(c) == 4:
            fn, sel, kw, a = c
            try:
                args = sel(a)
            except Exception:
                continue
        else:
            fn, args, kw = c
        for pv in poison_vals:
            with Poison(pv):
                try:
                    fn(*args, **kw)
                except Exception:
                    pass


# ----------------------------------------------------------------------------- main
def run(tier, seed):
    me = import_mir_eval()
    rng = random.Random(seed)
    ev = Evidence(PROP, tier, seed)
    rep = Reporter(PROP)
    thorough = tier == "thorough"
    T = gen.catalogue(me)

    res = tlc.run("Session", cfg="Session_T" if thorough else "Session", timeout=3000)
    hists = [r["hist"] for r in res["rows"]["ROW"]]
    if len(hists) + 1 != res["distinct"]:
        raise Machinery("Session: %d rows for %d states" % (len(hists), res["distinct"]))
    ev.tlc("Session", res, "all histories up to MaxLen over the alphabet; invariants Repeatable, HeapStable")

    # input pool for the alphabet (two bundles per letter), fixed by the seed
    pool = {}
    for name, t in T.items():
        for i in (1, 2):
            r = random.Random("%s-%d-%d" % (name, i, seed))
            shape = "random" if i == 1 else r.choice([s for s in t.shapes if s != "random"])
            pool[(name, i)] = t.gen(r, shape)

    fns = []
    for m in MODS:
        fns += public_functions(getattr(me, m))
    interner_d, interner_k, interner_o = Interner(), Interner(), Interner()
    records, seen, stats = [], {}, {"events": 0, "public": 0}

    def on_event(e):
        stats["events"] += 1
        short = e["fn"].split(".")[-1]
        if short.startswith("_"):
            return
        stats["public"] += 1
        names = list(e["args"].keys())
        pre = [digest(e["args"][n]) for n in names]
        post = [digest(e["post"][n]) for n in names]
        hk = hashlib.md5(e["fn"].encode())
        for d in pre:
            hk.update(d)
        key = hk.digest()
        out = digest(("exc", e["exc"])) if "exc" in e else digest(("ret", e["ret"]))
        sig = (key, tuple(post), out)
        if sig in seen:
            records[seen[sig]]["n"] += 1
            return
        seen[sig] = len(records)
        desc = {n: (repr(v)[:120]) for n, v in e["args"].items()}
        desc["->"] = repr(e.get("ret", e.get("exc")))[:300]
        records.append({"fn": e["fn"], "names": names, "_desc": desc, "pre": [interner_d(d) for d in pre],
                        "post": [interner_d(d) for d in post], "key": interner_k(key), "out": interner_o(out), "n": 1,
                        "_example": None})

    rec = Recorder(fns, hook=on_event)
    rec.events = _Sink()          # do not keep the raw events
    n_hist = 0
    with rec:
        for h in hists:
            n_hist += 1
            for c in h:
                if c["fn"] == "util":
                    run_calls(util_bundle(me, random.Random("u%d-%d" % (c["inp"], seed))))
                elif c["fn"] == "sonify":
                    run_calls(sonify_bundle(me, random.Random("s%d-%d" % (c["inp"], seed))))
                else:
                    t = T[c["fn"]]
                    run_calls(task_calls(t, pool[(t.name, c["inp"])], c["kw"], c["alias"]),
                              poison_vals=(POISONS[n_hist % 2],))
        # long seeded random histories over fresh inputs, then the same calls in reversed order
        n_inputs = 120 if thorough else 25
        bundles = []
        for name, t in T.items():
            for k in range(n_inputs):
                shape = t.shapes[k % len(t.shapes)]
                args = t.gen(rng, shape)
                bundles.append(task_calls(t, args, 1, alias=(k % 7 == 3)))
                if k % 3 == 0:
                    bundles.append(task_calls(t, args, 2, alias=False))
        for k in range(6 if thorough else 2):
            bundles.append(util_bundle(me, rng))
            bundles.append(sonify_bundle(me, rng))
        for k in range(3 if thorough else 1):
            bundles.append(separation_bundle(me, rng, heavy=thorough))
        # the repository's own annotation fixtures: evaluate() and every metric on real-world sized inputs
        n_real = 0
        for name, t in T.items():
            for nm, ra in realdata.pairs(me, name, limit=None if thorough else (1 if name in ("transcription_velocity", "hierarchy") else 2)):
                bundles.append(task_calls(t, ra, 1, alias=False))
                n_real += 1
        order = list(range(len(bundles)))
        rng.shuffle(order)
        for k in order:
            run_calls(bundles[k])
        for k in reversed(order[: len(order) // (1 if thorough else 3)]):
            run_calls(bundles[k])

    # ---- histories on FRESH interpreter state: module-level state (caches, tables) written by one task must not
    # change what another task returns.  For every ordered pair (A, B) the library is re-imported, A.evaluate and then
    # B.evaluate run with all their documented keywords; B's outcome is recorded under B's call key, so all
    # predecessors (and "no predecessor") must give the same outcome.
    names = sorted(T)
    fresh = 0
    for A in [None] + names:
        m2 = import_mir_eval()
        T2 = gen.catalogue(m2)
        for B in names:
            if A is not None:
                ta = T2[A]
                try:
                    ta.evaluate(*copy.deepcopy(pool[(A, 1)]), **dict(ta.kw_pool))
                except Exception:
                    pass
            tb = T2[B]
            for kwb in (dict(tb.kw_pool), {}):
                args = copy.deepcopy(pool[(B, 1)])
                try:
                    out = ("ret", tb.evaluate(*args, **kwb))
                except Exception as ex:  # noqa
                    out = ("exc", type(ex).__name__)
                key = hashlib.md5(("fresh:" + B + str(sorted(kwb))).encode()).digest()
                fresh += 1
                records.append({"fn": B + ".evaluate", "names": [], "_desc": {"after": str(A), "kwargs": str(kwb), "->": repr(out)[:300]},
                                "pre": [], "post": [], "key": interner_k(key), "out": interner_o(digest(out)), "n": 1})
            if A is None:
                continue
    # ... and with inputs on which the non-default keyword DECIDES the score (a deviation between the default and the
    # requested tolerance), for every ordered pair of these tasks - functions of different modules share names
    # (f_measure, detection, precision_recall_f1_overlap, evaluate), so anything keyed by a name is shared between them
    sens = {
        "onset": ((np.array([1.0, 2.0, 3.0]), np.array([1.09375, 2.0, 3.0])), {"window": 0.125}),
        "beat": ((np.array([6.0, 7.0, 8.0, 9.0]), np.array([6.09375, 7.0, 8.0, 9.0])), {"f_measure_threshold": 0.125}),
        "tempo": ((np.array([60.0, 120.0]), 0.5, np.array([66.0, 120.0])), {"tol": 0.125}),
        "segment": ((np.array([[0.0, 2.0], [2.0, 4.0]]), ["a", "b"], np.array([[0.0, 2.75], [2.75, 4.0]]), ["a", "b"]), {"frame_size": 0.5, "beta": 2.0}),
        "transcription": ((np.array([[0.0, 1.0], [2.0, 3.0]]), np.array([440.0, 220.0]), np.array([[0.09375, 1.0], [2.0, 3.0]]), np.array([440.0, 220.0])),
                          {"onset_tolerance": 0.125}),
        "transcription_velocity": ((np.array([[0.0, 1.0], [2.0, 3.0]]), np.array([440.0, 220.0]), np.array([10.0, 100.0]),
                                    np.array([[0.0, 1.0], [2.0, 3.0]]), np.array([440.0, 220.0]), np.array([10.0, 60.0])), {"velocity_tolerance": 0.5}),
    }
    for A in [None] + sorted(sens):
        m2 = import_mir_eval()
        T2 = gen.catalogue(m2)
        for B in sorted(sens):
            if A == B:
                continue
            if A is not None:
                try:
                    T2[A].evaluate(*copy.deepcopy(sens[A][0]), **dict(sens[A][1]))
                except Exception:
                    pass
            try:
                out = ("ret", T2[B].evaluate(*copy.deepcopy(sens[B][0]), **dict(sens[B][1])))
            except Exception as ex:  # noqa
                out = ("exc", type(ex).__name__)
            key = hashlib.md5(("fresh-sensitive:" + B).encode()).digest()
            fresh += 1
            records.append({"fn": B + ".evaluate", "names": [], "_desc": {"after": str(A), "kwargs": str(sens[B][1]), "->": repr(out)[:300]},
                            "pre": [], "post": [], "key": interner_k(key), "out": interner_o(digest(out)), "n": 1})
    # the same idea for sonify: the same synthesis calls in every order, each order on freshly imported state
    import itertools
    gram0 = np.abs(np.random.RandomState(seed + 5).randn(3, 4))
    variants = [("sin", {}), ("cos", {"function": np.cos}), ("sign", {"function": np.sign})]
    for order in itertools.permutations(range(3)):
        m2 = import_mir_eval()
        for vi in order:
            nm, kwv = variants[vi]
            for fname, args in (("time_frequency", (gram0.copy(), np.array([220.0, 440.0, 660.0]), np.arange(4) * 0.05, 2000)),
                                ("chroma", (np.abs(np.random.RandomState(3).randn(12, 3)), np.arange(3) * 0.05, 2000))):
                try:
                    out = ("ret", getattr(m2.sonify, fname)(*args, length=500, **kwv))
                except Exception as ex:  # noqa
                    out = ("exc", type(ex).__name__)
                key = hashlib.md5(("fresh-sonify:" + fname + nm).encode()).digest()
                fresh += 1
                records.append({"fn": "sonify." + fname, "names": [], "_desc": {"order": str([variants[i][0] for i in order]), "function": nm,
                                                                              "->": repr(out[1])[:120]},
                                "pre": [], "post": [], "key": interner_k(key), "out": interner_o(digest(out)), "n": 1})
    # the same pool of calls in fresh interpreters under different string-hash seeds (set / dict iteration order must not matter)
    import os
    import subprocess
    import sys as _sys
    hs_calls = 0
    for hs in ("0", "1", "4242") + (("31337", "7") if thorough else ()):
        env = dict(os.environ, PYTHONHASHSEED=hs, PYTHONPATH=os.path.dirname(os.path.dirname(os.path.dirname(os.path.abspath(__file__)))))
        p_ = subprocess.run([_sys.executable, "-m", "harness.hashseed_probe", str(seed)], env=env, stdout=subprocess.PIPE, stderr=subprocess.PIPE,
                            text=True, timeout=1800, cwd=env["PYTHONPATH"])
        line = [l for l in p_.stdout.splitlines() if l.startswith("PROBE")]
        if p_.returncode != 0 or not line:
            raise Machinery("hash-seed probe failed: " + p_.stderr[-400:])
        for call_id, dg in json.loads(line[0][5:]).items():
            hs_calls += 1
            key = hashlib.md5(("hashseed:" + call_id).encode()).digest()
            records.append({"fn": call_id.split("/")[0] + (".evaluate" if "/" in call_id and "." not in call_id.split("/")[0] else ""), "names": [],
                            "_desc": {"call": call_id, "PYTHONHASHSEED": hs, "->": dg}, "pre": [], "post": [],
                            "key": interner_k(key), "out": interner_o(bytes.fromhex(dg)), "n": 1})
    # the repository's OWN test modules under the recorder (pytest plugin harness.pytest_recorder): every public call they
    # make becomes a record too - judged on every step, not only where a test asserts something
    from ..common import REPO
    tdir = os.path.join(REPO, "tests")
    mods = sorted(f for f in os.listdir(tdir) if f.startswith("test_") and f.endswith(".py") and f != "test_display.py")
    if not thorough:
        mods = [m for m in mods if m in ("test_util.py", "test_chord.py", "test_key.py", "test_tempo.py", "test_onset.py", "test_pattern.py",
                                         "test_alignment.py", "test_transcription.py", "test_input_output.py", "test_beat.py")]
    scratch = tlc.scratch_dir("ptrace_")
    outp = os.path.join(scratch, "records.json")
    env = dict(os.environ, PYTHONPATH=REPO + os.pathsep + os.path.dirname(os.path.dirname(os.path.dirname(os.path.abspath(__file__)))),
               VERIF_TRACE_OUT=outp, MPLBACKEND="Agg", PYTHONHASHSEED="0")
    p_ = subprocess.run([_sys.executable, "-m", "pytest", "-q", "-p", "no:cacheprovider", "--no-cov", "-p", "harness.pytest_recorder"] + mods,
                        cwd=tdir, env=env, stdout=subprocess.PIPE, stderr=subprocess.STDOUT, text=True, timeout=3000)
    try:
        suite = json.load(open(outp))
    except Exception as ex:  # noqa
        raise Machinery("repository tests under the recorder produced no records: " + p_.stdout[-400:]) from ex
    finally:
        import shutil
        shutil.rmtree(scratch, ignore_errors=True)
    for r_ in suite["records"]:
        records.append({"fn": r_["fn"], "names": r_["names"], "_desc": dict(r_["desc"], source="repository test-suite"),
                        "pre": [interner_d(bytes.fromhex(d)) for d in r_["pre"]], "post": [interner_d(bytes.fromhex(d)) for d in r_["post"]],
                        "key": interner_k(bytes.fromhex(r_["key"])), "out": interner_o(bytes.fromhex(r_["out"])), "n": r_["n"]})
    n_suite = len(suite["records"])
    me = import_mir_eval()
    groups = {}
    for idx, r in enumerate(records):
        groups.setdefault(r["key"], []).append(idx + 1)
    payload = {"calls": [{k: v for k, v in r.items() if not k.startswith("_")} for r in records],
               "groups": [{"key": k, "members": m} for k, m in groups.items()]}
    rejects, st = validate(payload)
    ev.tlc("Trace_Session", st, "verdict on every distinct recorded call and every call group")
    ev.cov["traces_validated_against_impl"] = stats["public"]
    ev.cov["histories_executed"] = n_hist
    ev.cov["repository_fixture_pairs_in_histories"] = n_real
    ev.cov["fresh_state_history_calls"] = fresh
    ev.cov["distinct_calls_recorded_from_the_repository_test_modules"] = n_suite
    ev.cov["repository_test_modules_run_under_the_recorder"] = len(mods)
    ev.cov["calls_repeated_under_other_hash_seeds"] = hs_calls
    ev.cov["recorded_events_total"] = stats["events"]
    ev.cov["distinct_call_records"] = len(records)
    ev.cov["call_groups_with_repeats"] = sum(1 for m in groups.values() if len(m) > 1 or records[m[0] - 1]["n"] > 1)
    for rj in rejects:
        if rj["kind"] == "call":
            r = records[rj["tid"] - 1]
            rep.violation(r["fn"], "argument-modified:" + ",".join(sorted(rj["what"])),
                          {"function": r["fn"], "arguments_changed": sorted(rj["what"]), "times_seen": r["n"],
                           "call": r["_desc"]})
        else:
            g = payload["groups"][rj["tid"] - 1]
            rep.violation(rj["fn"], "same-call-different-outcome",
                          {"function": rj["fn"], "calls": [records[m - 1]["_desc"] for m in g["members"][:3]]})
    for r in records:
        ev.case((r["fn"], r["key"]), nontrivial=len(r["pre"]) > 0, n=r["n"])
    ev.sample({"history": hists[len(hists) // 2]})
    ev.sample({"call_record": payload["calls"][len(records) // 2]})
    ev.cov["rule"] = ("every history of the Session model executed on the real library (each call twice under two fillings "
                      "of numpy.empty) + seeded long random histories over all tasks, util, sonify, separation, also in "
                      "reversed order, + the repository's annotation fixtures, + the repository's own test modules run under the recorder, + a pool of calls "
                      "repeated in fresh interpreters under other PYTHONHASHSEED values; every call of a public function seen by the recorder (top-level or nested) is a "
                      "record; distinct = distinct (function, argument values); non-trivial = has at least one argument")
    ev.d["assumptions"] = ["digests are md5 of a canonical byte serialisation (dtype, shape, bytes); interned to integers",
                           "only functions whose name does not start with '_' are judged (private helpers may use scratch "
                           "arguments); sys.monitoring delivers every call of the chosen code objects"]
    code = rep.finish()
    ev.write(violations=len(rep.violations))
    return code


class _Sink(list):
    def append(self, x):
        pass


def validate(payload):
    import os
    import shutil
    d = tlc.scratch_dir("trace_")
    path = os.path.join(d, "trace.json")
    try:
        with open(path, "w") as f:
            json.dump(payload, f)
        res = tlc.run("Trace_Session", workers=16, env={"TRACE_FILE": path}, timeout=3000, want=("REJECT", "DONE"),
                      heap="8g")
    finally:
        shutil.rmtree(d, ignore_errors=True)
    n = len(payload["calls"]) + len(payload["groups"])
    if res["distinct"] != 2 * n or not res["rows"]["DONE"]:
        raise Machinery("Trace_Session: %d distinct states for %d records" % (res["distinct"], n))
    return res["rows"]["REJECT"], res


def replay(path):
    v = json.load(open(path))
    print(json.dumps(v, indent=1)[:3000])
    print("re-run: ./check C15 quick  (purity violations are reproduced by the same seeded histories)")
    return run("quick", 0)
