"""C19 - BSS-eval decomposition, invariances and framewise consistency.

What TLA+ decides here is the DISCRETE content of the property: Sep.tla / MC_C19 model the framewise
variants as a loop machine (number of windows, fallback below two windows, window k = samples
[k*hop, k*hop+window), NaN in every metric iff a source is silent in the window, arity 4/5) over all
small lengths / windows / hops and silence maps, and define permutation optimality and equivariance.
The harness runs the real bss_eval_* on signals built from the model's silence maps and on seeded
random / mixed / filtered estimates, and logs per call: columns, NaN flags, arity, the permutation and
the SIR matrix reconstructed through the public API, plus the NUMERIC facts as booleans measured in
floating point (components sum to the estimate, invariance to rescaling, each window equals the
non-framewise result on its slice, perfect estimate => identity permutation and very high SDR).
Trace_C19 judges every event; the floating-point linear algebra itself is outside what a TLA+
specification can express (level 'other')."""
import itertools
import json
import random
import warnings

import numpy as np

from .. import tlc, trace
from ..common import Evidence, Reporter, import_mir_eval, Machinery

PROP = "C19"
B = 1100          # samples per abstract block


def build(maps, g, nchan=0, pan=False):
    """signals from silence maps: active blocks are noise, silent blocks exactly zero; pan: the first source is hard-panned
    (its second channel exactly zero everywhere) - a panned source is NOT silent, the silence map is unchanged"""
    out = []
    for m in maps:
        x = np.concatenate([g.randn(B) if a else np.zeros(B) for a in m])
        out.append(x)
    x = np.array(out)
    if nchan:
        x = np.stack([x * (1.0 + 0.3 * c) for c in range(nchan)], axis=2)
        if pan and nchan > 1:
            x[0, :, 1] = 0.0
    return x


def nanflags(res):
    """per window (column): list over the returned arrays of 'all entries NaN'"""
    arrs = [np.atleast_2d(np.asarray(a, dtype=float)) for a in res]
    ncol = arrs[0].shape[1]
    return [[bool(np.all(np.isnan(a[:, w]))) for a in arrs] for w in range(ncol)], ncol


def run(tier, seed):
    me = import_mir_eval()
    rng = random.Random(seed)
    g = np.random.RandomState(seed + 17)
    ev = Evidence(PROP, tier, seed, level="other")
    rep = Reporter(PROP)
    thorough = tier == "thorough"
    sp = me.separation
    warnings.filterwarnings("ignore")
    res = tlc.run("MC_C19", timeout=1200)
    rows = res["rows"]["ROW"]
    ev.tlc("MC_C19", res, "framewise loop machine; invariants WindowsFit, NextWouldNotFit, AllHandled")
    events, meta = [], {}

    def add(e, m):
        e["tid"] = len(events) + 1
        events.append(e); meta[e["tid"]] = m

    # ---- framewise skeleton on the model's silence maps
    pick = rng.sample(rows, 60 if thorough else 14)
    for r in pick:
        for images in (False, True):
            nchan = rng.choice([1, 2]) if images else 0
            refs, ests = build(r["refs"], g, nchan), build(r["ests"], g, nchan, pan=(nchan == 2 and rng.random() < 0.6))
            fw = sp.bss_eval_images_framewise if images else sp.bss_eval_sources_framewise
            nf = sp.bss_eval_images if images else sp.bss_eval_sources
            win, hop = r["window"] * B, r["hop"] * B
            e = {"kind": "frame", "L": r["L"], "window": r["window"], "hop": r["hop"], "refs": r["refs"], "ests": r["ests"],
                 "images": images, "exc": "ok", "arity": 0, "cols": 0, "nan": [], "sliceeq": True, "fallbackeq": True}
            try:
                out = fw(refs, ests, window=win, hop=hop)
                e["arity"] = len(out)
                e["nan"], e["cols"] = nanflags(out)
                if r["fallback"]:
                    base = nf(refs, ests, False)
                    e["fallbackeq"] = bool(len(base) == len(out) and all(np.allclose(np.asarray(a).ravel(), np.asarray(b).ravel(), rtol=1e-9, atol=1e-9, equal_nan=True)
                                                                       for a, b in zip(out, base)))
                else:
                    for w in range(e["cols"]):
                        if not any(e["nan"][w]):
                            sl = slice(w * hop, w * hop + win)
                            base = nf(refs[:, sl], ests[:, sl], False)
                            for a, b in zip(out, base):
                                if not np.allclose(np.asarray(a)[:, w], np.asarray(b), rtol=1e-9, atol=1e-9):
                                    e["sliceeq"] = False
            except Exception as ex:  # noqa
                e["exc"] = type(ex).__name__
            add(e, {"what": "framewise", "images": images, "row": r})
    # ---- permutation, decomposition, invariances
    for it in range(12 if thorough else 5):
        nsrc = 3 if it % 2 == 0 else 2
        Ls = 2 * nsrc * 512 + rng.choice([0, 100])
        ref = g.randn(nsrc, Ls)
        order = list(rng.choice([p for p in itertools.permutations(range(nsrc))]))
        if nsrc == 3 and it in (0, 2):
            order = [1, 2, 0] if it == 0 else [2, 0, 1]      # the two assignments that are not their own inverse, on every run
        mix = np.eye(nsrc)[order] + 0.25 * g.randn(nsrc, nsrc)
        est = mix.dot(ref) + 0.05 * g.randn(nsrc, Ls)
        if it % 3 == 1:                                   # filtered estimates
            h = np.array([1.0, 0.5, -0.25])
            est = np.array([np.convolve(x, h)[:Ls] for x in est])
        sdr, sir, sar, perm = sp.bss_eval_sources(ref, est)
        # SIR matrix through the public API: estimate e placed at position r, no permutation search
        S = np.zeros((nsrc, nsrc))
        for e_ in range(nsrc):
            for r_ in range(nsrc):
                est2 = np.array([est[e_]] * nsrc)
                S[e_, r_] = sp.bss_eval_sources(ref, est2, compute_permutation=False)[1][r_]
        Sq = [[int(round(min(max(v, -300), 300) * 1000)) for v in row] for row in S]
        # numeric facts
        st, es, ei, ea = sp._bss_decomp_mtifilt(ref, est[0], 0, 512)
        tot = st + es + ei + ea
        decompok = bool(np.allclose(tot[:Ls], est[0], rtol=0, atol=1e-8 * max(1.0, np.abs(est[0]).max())) and np.allclose(tot[Ls:], 0, atol=1e-8))
        c = np.array([rng.choice([0.5, -2.0, 3.0, 10.0]) for _ in range(nsrc)])[:, None]
        c2 = np.array([rng.choice([0.25, -1.5, 4.0]) for _ in range(nsrc)])[:, None]
        r2 = sp.bss_eval_sources(ref * c2, est * c)
        scaleok = bool(np.allclose(r2[0], sdr, atol=1e-5) and np.allclose(r2[1], sir, atol=1e-5) and np.allclose(r2[2], sar, atol=1e-5)
                       and list(r2[3]) == list(perm))
        # extreme but valid gains (a very quiet or very loud estimate / reference is still a non-zero multiple)
        # (a reference 1e13 times louder than the estimate loses whole dBs to round-off on the unchanged tree - measured, not
        # claimed; the gains below keep the ratio within 1e10 and the comparison at 1e-3 dB)
        gq = rng.choice([1e-10, 1e-9, 1e6])
        gr = rng.choice([1.0, 1e-8])
        r2x = sp.bss_eval_sources(ref * gr, est * gq)
        scaleok = scaleok and bool(np.allclose(r2x[0], sdr, atol=1e-3) and np.allclose(r2x[1], sir, atol=1e-3)
                                   and np.allclose(r2x[2], sar, atol=1e-3) and list(r2x[3]) == list(perm))
        # the same numeric facts for the image variant (2 channels), and evaluate() as the bundle of the four functions
        imgdecompok = imgscaleok = evalok = True
        if it % 2 == 0 or thorough or it == 1:      # it == 1: a two-source input, so that evaluate() is bundled in the quick tier too
            r3 = np.stack([ref, 0.6 * ref + 0.05 * g.randn(nsrc, Ls)], axis=2)
            e3 = np.stack([est, 0.6 * est + 0.05 * g.randn(nsrc, Ls)], axis=2)
            comp = sp._bss_decomp_mtifilt_images(r3, np.reshape(e3[0], (Ls, 2), order="F"), 0, 512)
            tot3 = comp[0] + comp[1] + comp[2] + comp[3]
            imgdecompok = bool(np.allclose(tot3[:, :Ls], e3[0].T, atol=1e-8 * max(1.0, np.abs(e3[0]).max())) and np.allclose(tot3[:, Ls:], 0, atol=1e-8))
            oi = sp.bss_eval_images(r3, e3)
            # images: SIR and SAR are invariant to independent rescaling of every source; SDR and ISR measure gain
            # (spatial) distortion by definition and are invariant only to a COMMON factor (named deviation, DESIGN.md 11)
            oi2 = sp.bss_eval_images(r3 * c2[:, :, None], e3 * c[:, :, None])
            oi3 = sp.bss_eval_images(r3 * 2.5, e3 * 2.5)
            imgscaleok = bool(all(np.allclose(a, b, atol=1e-5) for a, b in zip(oi[2:4], oi2[2:4])) and list(oi[4]) == list(oi2[4])
                              and all(np.allclose(a, b, atol=1e-5) for a, b in zip(oi[:4], oi3[:4])) and list(oi[4]) == list(oi3[4]))
            # the property's sentence read literally also for the image metrics: all four measures under independent rescaling
            imgfullok = bool(all(np.allclose(a, b, atol=1e-5) for a, b in zip(oi[:4], oi2[:4])))
            add({"kind": "imgscale", "imgfullok": imgfullok, "n": nsrc}, {"what": "imgscale", "images": True, "nsrc": nsrc,
                                                                           "sdr": [oi[0].tolist(), oi2[0].tolist()], "isr": [oi[1].tolist(), oi2[1].tolist()],
                                                                           "gains_est": c.ravel().tolist(), "gains_ref": c2.ravel().tolist()})
            if nsrc == 2:
                d = sp.evaluate(ref, est)
                keys = ["Images - Source to Distortion", "Images - Image to Spatial", "Images - Source to Interference", "Images - Source to Artifact",
                        "Images - Source permutation", "Images Frames - Source to Distortion", "Images Frames - Image to Spatial",
                        "Images Frames - Source to Interference", "Images Frames - Source to Artifact", "Images Frames - Source permutation",
                        "Sources Frames - Source to Distortion", "Sources Frames - Source to Interference", "Sources Frames - Source to Artifact",
                        "Sources Frames - Source permutation", "Sources - Source to Distortion", "Sources - Source to Interference",
                        "Sources - Source to Artifact", "Sources - Source permutation"]
                direct = [x.tolist() for x in sp.bss_eval_images(ref, est)] + [x.tolist() for x in sp.bss_eval_images_framewise(ref, est)] + \
                         [np.asarray(x).tolist() for x in sp.bss_eval_sources_framewise(ref, est)] + [x.tolist() for x in sp.bss_eval_sources(ref, est)]
                evalok = bool(list(d.keys()) == keys and json.dumps(list(d.values())) == json.dumps(direct))
        add({"kind": "perm", "n": nsrc, "sir": Sq, "perm": [int(p) + 1 for p in perm], "decompok": decompok, "scaleok": scaleok,
             "imgdecompok": imgdecompok, "imgscaleok": imgscaleok, "evalok": evalok},
            {"what": "perm", "nsrc": nsrc, "true_order": order, "sir": S.tolist(), "perm": [int(p) for p in perm]})
        pi = list(rng.choice([p for p in itertools.permutations(range(nsrc))]))
        perm2 = sp.bss_eval_sources(ref, est[pi])[3]
        add({"kind": "equiv", "n": nsrc, "perm": [int(p) + 1 for p in perm], "pi": [int(p) + 1 for p in pi], "perm2": [int(p) + 1 for p in perm2]},
            {"what": "equivariance", "pi": pi, "perm": [int(p) for p in perm], "perm2": [int(p) for p in perm2]})
        if it % 2 == 1:
            pr = sp.bss_eval_sources(ref, ref.copy())
            ms = float(np.min(pr[0]))
            add({"kind": "perfect", "n": nsrc, "perm": [int(p) + 1 for p in pr[3]], "minsdr": int(min(ms, 1000)) if np.isfinite(ms) else 1000},
                {"what": "perfect", "minsdr": ms})
        if it % 4 == 0:                                   # images: permutation + ISR present
            r3 = np.stack([ref, 0.6 * ref + 0.05 * g.randn(nsrc, Ls)], axis=2)
            e3 = np.stack([est, 0.6 * est + 0.05 * g.randn(nsrc, Ls)], axis=2)
            o = sp.bss_eval_images(r3, e3)
            pi3 = list(rng.choice([p for p in itertools.permutations(range(nsrc))]))
            o2 = sp.bss_eval_images(r3, e3[pi3])
            add({"kind": "equiv", "n": nsrc, "perm": [int(p) + 1 for p in o[4]], "pi": [int(p) + 1 for p in pi3], "perm2": [int(p) + 1 for p in o2[4]]},
                {"what": "equivariance-images", "pi": pi3})
    for images, fns in ((False, [sp.bss_eval_sources, sp.bss_eval_sources_framewise]), (True, [sp.bss_eval_images, sp.bss_eval_images_framewise])):
        for fn in fns:
            out = fn(np.array([]), np.array([]))
            add({"kind": "empty", "images": images, "arity": len(out)}, {"what": "empty input", "fn": fn.__name__})
    full = {"kind": "", "L": 0, "window": 1, "hop": 1, "refs": [], "ests": [], "images": False, "exc": "ok", "arity": 0, "cols": 0, "nan": [],
            "sliceeq": True, "fallbackeq": True, "n": 0, "sir": [], "perm": [], "decompok": True, "scaleok": True, "imgdecompok": True,
            "imgscaleok": True, "evalok": True, "pi": [], "perm2": [], "minsdr": 0, "imgfullok": True}
    payload = [dict(full, **e) for e in events]
    rejects, st = trace.validate_par("Trace_C19", payload)
    ev.tlc("Trace_C19", st, "verdicts on recorded separation outcomes")
    for rj in rejects:
        m = meta[rj["tid"]]
        fn = "separation.bss_eval_" + ("images" if m.get("images") else "sources") + ("_framewise" if m["what"] == "framewise" else "")
        rep.violation(fn, m["what"].split("-")[0] + "/" + rj["clause"], {"event": events[rj["tid"] - 1], "meta": json.loads(json.dumps(m, default=str))})
    for e in events:
        ev.case((e["kind"], json.dumps(e, sort_keys=True, default=str)[:500]), nontrivial=e["kind"] != "empty")
    ev.cov["traces_validated_against_impl"] = len(events)
    ev.sample({"event": {k: v for k, v in events[0].items() if k != "nan"}})
    ev.sample({"event": events[-6]})
    ev.cov["explanation"] = ("TLC model-checks the framewise loop skeleton (all lengths/windows/hops x silence maps of 2+2 sources) and "
                             "judges %d recorded calls of the real code: window count / fallback / NaN-iff-silent / arity, permutation "
                             "validity, optimality over all assignments of the SIR matrix rebuilt through the public API, equivariance "
                             "under reordering, empty-input arity. The numeric claims (exact decomposition, scale invariance, window == "
                             "non-framewise on its slice, very high SDR for a perfect estimate) are measured by the harness in floating "
                             "point and only their truth values are judged by the trace spec." % len(events))
    ev.cov["evaluations"] = len(events)
    ev.d["assumptions"] = ["block size 1100 samples; 1-3 sources, 1-2 channels; SIR quantised to 0.001 dB with a slack of nsrc units",
                           "numpy/scipy linear algebra is trusted; the numeric facts are observed, not decided, by TLC"]
    code = rep.finish()
    ev.write(violations=len(rep.violations))
    return code


def replay(path):
    v = json.load(open(path))
    print(json.dumps(v, indent=1)[:3000])
    return run("quick", 0)
