"""C07 - looser criteria never lower a score; nested criteria are ordered.

Specification level: MC_C07 enumerates event and note inputs on the lattice with every ORDERED pair
of tolerances t1 <= t2 (one parameter moves, the others fixed) and checks on the definitions that the
feasibility graph only grows and the maximum matching size never decreases; MC_C05_notes checks
strict subset non-strict and the nesting full-note subset onset-only.  Code level: for every function
of Relations!MonoSpec the harness evaluates seeded inputs under t1 <= t2 drawn from a lattice that
contains the exact distances occurring in the input, and the documented nested pairs on one input;
Trace_Rel judges the pairs (listed positions must not decrease)."""
import json
import random

import numpy as np

from .. import tlc, gen, realdata
from ..common import Evidence, Reporter, import_mir_eval
from ..relations import RelLog, call

PROP = "C07"


def pairs(vals):
    vals = sorted(vals)
    return [(a, b) for i, a in enumerate(vals) for b in vals[i + 1:]]


def run(tier, seed):
    me = import_mir_eval()
    rng = random.Random(seed)
    ev = Evidence(PROP, tier, seed)
    rep = Reporter(PROP)
    thorough = tier == "thorough"
    res = tlc.run("MC_C07", cfg="MC_C07_T" if thorough else "MC_C07", timeout=3000, heap="8g", want=())
    ev.tlc("MC_C07", res, "invariants EdgesGrow, SizeMonotone over all ordered tolerance pairs (events and notes)")
    res = tlc.run("MC_C05_notes", cfg="MC_C05_notes", timeout=3000, heap="8g", want=())
    ev.tlc("MC_C05_notes", res, "invariants Nested (full-note pairs are onset pairs) and StrictSub")

    log = RelLog()
    tr, tv, mel, mp, al = me.transcription, me.transcription_velocity, me.melody, me.multipitch, me.alignment
    n = 300 if thorough else 60

    def mono(fn_name, fn, args, pname, values, fixed=None, take=None):
        fixed = fixed or {}
        for t1, t2 in pairs(values):
            f = (lambda *a, **k: take(fn(*a, **k))) if take else fn
            log.add("mono", fn_name, call(f, *args, **dict(fixed, **{pname: t1})), call(f, *args, **dict(fixed, **{pname: t2})),
                    {"param": pname, "t1": t1, "t2": t2, "fixed": str(fixed), "args": [np.asarray(a).tolist() if not isinstance(a, list) else
                                                                                      [np.asarray(x).tolist() for x in a] for a in args]})

    def nested(name, a_fn, b_fn, meta):
        log.add("mono", "nested", call(a_fn), call(b_fn), dict(meta, pair=name))

    for it in range(n):
        shape = rng.choice(["random", "random", "duplicates", "clustered", "identical"])
        a, b = gen.gen_events(rng, shape, lo=40, hi=140)
        mono("beat.f_measure", me.beat.f_measure, (a, b), "f_measure_threshold", [0.0625, 0.125, 0.25, 0.5])
        mono("onset.f_measure", me.onset.f_measure, (a, b), "window", [0.0, 0.125, 0.25, 0.375, 1.0], take=lambda r: (r[1], r[2], r[0]))
        ri, rl, ei, el = gen.gen_segment_pair(rng, "random")
        if len(ri) and len(ei):
            mono("segment.detection", me.segment.detection, (ri, ei), "window", [0.25, 0.5, 0.75, 3.0], fixed={"trim": rng.random() < 0.5})
        # notes
        nri, nrp, nrv, nei, nep, nev = gen.gen_notes(rng, rng.choice(["random", "random", "duplicates"]), velocity=True)
        fixed = {"offset_ratio": rng.choice([None, 0.25, 0.5]), "strict": rng.random() < 0.5}
        take3 = lambda r: r[:3]  # noqa
        mono("transcription.precision_recall_f1_overlap", tr.precision_recall_f1_overlap, (nri, nrp, nei, nep), "onset_tolerance",
             [1 / 16.0, 2 / 16.0, 3 / 16.0], fixed=fixed, take=take3)
        mono("transcription.precision_recall_f1_overlap", tr.precision_recall_f1_overlap, (nri, nrp, nei, nep), "pitch_tolerance",
             [30.0, 50.0, 90.0, 1300.0], fixed=fixed, take=take3)
        mono("transcription.precision_recall_f1_overlap", tr.precision_recall_f1_overlap, (nri, nrp, nei, nep), "offset_ratio",
             [0.125, 0.25, 0.5, 1.0], fixed={"strict": fixed["strict"]}, take=take3)
        mono("transcription.precision_recall_f1_overlap", tr.precision_recall_f1_overlap, (nri, nrp, nei, nep), "offset_min_tolerance",
             [0.5 / 16, 1 / 16.0, 2 / 16.0], fixed={"strict": fixed["strict"], "offset_ratio": 0.125}, take=take3)
        mono("transcription.onset_precision_recall_f1", tr.onset_precision_recall_f1, (nri, nei), "onset_tolerance",
             [1 / 16.0, 2 / 16.0, 3 / 16.0], fixed={"strict": fixed["strict"]})
        mono("transcription.offset_precision_recall_f1", tr.offset_precision_recall_f1, (nri, nei), "offset_ratio",
             [0.125, 0.25, 0.5, 1.0], fixed={"strict": fixed["strict"]})
        mono("transcription_velocity.precision_recall_f1_overlap", tv.precision_recall_f1_overlap, (nri, nrp, nrv, nei, nep, nev),
             "velocity_tolerance", [0.05, 0.1, 0.25, 0.5, 1.5], fixed={"offset_ratio": fixed["offset_ratio"]}, take=take3)
        # strict -> non-strict (strict = the tighter criterion)
        for kw in ({"onset_tolerance": 1 / 16.0}, {"onset_tolerance": 2 / 16.0, "offset_ratio": 0.5}):
            log.add("mono", "transcription.precision_recall_f1_overlap",
                    call(lambda: tr.precision_recall_f1_overlap(nri, nrp, nei, nep, strict=True, **kw)[:3]),
                    call(lambda: tr.precision_recall_f1_overlap(nri, nrp, nei, nep, strict=False, **kw)[:3]),
                    {"param": "strict", "t1": True, "t2": False, "kw": str(kw), "ref": nri.tolist(), "est": nei.tolist(),
                     "ref_pitches": nrp.tolist(), "est_pitches": nep.tolist()})
        for ms, mfn in (("count", lambda **k: [len(tr.match_notes(nri, nrp, nei, nep, **k))]),
                        ("count", lambda **k: [len(tr.match_note_onsets(nri, nei, **k))]),
                        ("count", lambda **k: [len(tr.match_note_offsets(nri, nei, **k))])):
            if len(nri) and len(nei):
                log.add("mono", ms, call(mfn, strict=True), call(mfn, strict=False), {"what": "matching size strict vs non-strict",
                                                                                        "ref": nri.tolist(), "est": nei.tolist()})
        # decimal (non-dyadic) times with deviations a few 1e-5 s around a tolerance that is not a multiple of 1e-4:
        # the documented 4-decimal rounding must treat strict and non-strict alike
        tol = rng.choice([0.04998, 0.05003, 0.07462, 0.1234567])
        k = rng.randint(1, 5)
        on = np.round(np.sort(np.array([rng.uniform(0, 5) for _ in range(k)])), 5)
        du = np.array([rng.choice([0.37491, 0.25003, 0.5, 0.12345]) for _ in range(k)])
        dri = np.stack([on, on + du], axis=1)
        dev = np.array([rng.choice([-1, 1]) * (tol + rng.choice([-6e-5, -4e-5, -2e-5, -1e-5, 1e-5, 2e-5, 4e-5])) for _ in range(k)])
        odev = np.array([rng.choice([-1, 1]) * (0.2 * d + rng.choice([-6e-5, -2e-5, -1e-5, 1e-5, 2e-5])) for d in du])
        dei = np.stack([np.abs(on + dev), np.abs(on + dev) + 0], axis=1)
        dei[:, 1] = dri[:, 1] + odev
        dei[:, 1] = np.maximum(dei[:, 1], dei[:, 0] + 1e-3)
        dp = np.full(k, 440.0)
        dmeta = {"ref": dri.tolist(), "est": dei.tolist(), "onset_tolerance": tol, "what": "decimal near-threshold"}
        for nm, f in (("transcription.onset_precision_recall_f1", lambda st: tr.onset_precision_recall_f1(dri, dei, onset_tolerance=tol, strict=st)),
                      ("transcription.offset_precision_recall_f1", lambda st: tr.offset_precision_recall_f1(dri, dei, strict=st)),
                      ("transcription.precision_recall_f1_overlap", lambda st: tr.precision_recall_f1_overlap(dri, dp, dei, dp, onset_tolerance=tol, strict=st)[:3]),
                      ("transcription.precision_recall_f1_overlap", lambda st: tr.precision_recall_f1_overlap(dri, dp, dei, dp, onset_tolerance=1.0, strict=st)[:3])):
            log.add("mono", nm, call(f, True), call(f, False), dict(dmeta, param="strict", t1=True, t2=False))
        # velocity tolerance placed EXACTLY on a note's rescaled velocity error (found through the public API by bisection
        # over the floats): strict=False must still not score below strict=True there
        if len(nri) and len(nei):
            def vcount(t, st):
                try:
                    return len(tv.match_notes(nri, nrp, nrv, nei, nep, nev, velocity_tolerance=t, strict=st, onset_tolerance=2 / 16.0,
                                              offset_ratio=None))
                except Exception:  # noqa
                    return -1
            lo, hi = 0.0, 2.0
            # only where strictness does not change the underlying note matching (otherwise the velocity regression differs
            # and nothing is claimed - see assumptions)
            same_inner = (tr.match_notes(nri, nrp, nei, nep, onset_tolerance=2 / 16.0, offset_ratio=None, strict=True) ==
                          tr.match_notes(nri, nrp, nei, nep, onset_tolerance=2 / 16.0, offset_ratio=None, strict=False))
            if same_inner and 0 <= vcount(lo, False) < vcount(hi, False):
                c0 = vcount(lo, False)
                for _ in range(80):
                    mid = 0.5 * (lo + hi)
                    if mid <= lo or mid >= hi:
                        break
                    if vcount(mid, False) > c0:
                        hi = mid
                    else:
                        lo = mid
                for tie in (lo, hi):
                    f = lambda st: tv.precision_recall_f1_overlap(nri, nrp, nrv, nei, nep, nev, velocity_tolerance=tie, strict=st,  # noqa
                                                                    onset_tolerance=2 / 16.0, offset_ratio=None)[:3]
                    log.add("mono", "transcription_velocity.precision_recall_f1_overlap", call(f, True), call(f, False),
                            {"param": "strict", "t1": True, "t2": False, "velocity_tolerance": tie, "what": "tolerance on a velocity error",
                             "ref": nri.tolist(), "est": nei.tolist(), "ref_velocities": nrv.tolist(), "est_velocities": nev.tolist()})
        # nested criteria on one input
        if len(nri) and len(nei):
            ev_ = call(tr.evaluate, nri, nrp, nei, nep)
            if ev_[0] == "ok":
                d = tr.evaluate(nri, nrp, nei, nep)
                meta = {"ref": nri.tolist(), "est": nei.tolist(), "ref_pitches": nrp.tolist(), "est_pitches": nep.tolist()}
                for k in ("Precision", "Recall", "F-measure"):
                    nested("with-offset<=no-offset:" + k, lambda: d[k], lambda: d[k + "_no_offset"], meta)
                    nested("no-offset<=onset-only:" + k, lambda: d[k + "_no_offset"], lambda: d["Onset_" + k], meta)
                dv = tv.evaluate(nri, nrp, nrv, nei, nep, nev)
                for k in ("Precision", "Recall", "F-measure", "Precision_no_offset", "Recall_no_offset", "F-measure_no_offset"):
                    nested("velocity<=plain:" + k, lambda: dv[k], lambda: d[k], meta)
            for ot in (1 / 16.0, 3 / 16.0):     # the nesting also under a non-default onset tolerance
                d2 = call(tr.evaluate, nri, nrp, nei, nep, onset_tolerance=ot)
                if d2[0] == "ok":
                    dd = tr.evaluate(nri, nrp, nei, nep, onset_tolerance=ot)
                    for k in ("Precision", "Recall", "F-measure"):
                        nested("no-offset<=onset-only[onset_tolerance=%g]:%s" % (ot, k), lambda: dd[k + "_no_offset"],
                               lambda: dd["Onset_" + k], {"ref": nri.tolist(), "est": nei.tolist(), "onset_tolerance": ot,
                                                          "ref_pitches": nrp.tolist(), "est_pitches": nep.tolist()})
        # melody
        rt, rf, et, ef = gen.gen_melody(rng, rng.choice(["random", "random", "disjoint"]))
        cv = call(mel.to_cent_voicing, rt, rf, et, ef)
        if cv[0] == "ok":
            v = mel.to_cent_voicing(rt, rf, et, ef)
            for name in ("raw_pitch_accuracy", "raw_chroma_accuracy", "overall_accuracy"):
                mono("melody." + name, getattr(mel, name), v, "cent_tolerance", [10, 30, 50, 110, 1250])
            for tol in (30, 50):
                nested("raw-pitch<=raw-chroma", lambda: mel.raw_pitch_accuracy(*v, cent_tolerance=tol),
                       lambda: mel.raw_chroma_accuracy(*v, cent_tolerance=tol), {"ref_freq": rf.tolist(), "est_freq": ef.tolist(), "tol": tol})
        # multipitch
        mt, mrf, met, mef = gen.gen_multipitch(rng, rng.choice(["random", "random", "duplicates", "octaves"]))
        mono("multipitch.metrics", mp.metrics, (mt, mrf, met, mef), "window", [0.25, 0.5, 0.74, 1.0, 2.5])
        for w in (0.5, 1.0):
            r = call(mp.metrics, mt, mrf, met, mef, window=w)
            if r[0] == "ok":
                m = r[1]
                for i, nm in ((0, "Precision"), (1, "Recall"), (2, "Accuracy")):
                    nested("multipitch raw<=chroma:" + nm, lambda: m[i], lambda: m[i + 7],
                           {"ref": [x.tolist() for x in mrf], "est": [x.tolist() for x in mef], "window": w})
        # tempo, alignment
        tref, tw, test = gen.gen_tempo(rng, rng.choice(["random", "random", "single"]))
        mono("tempo.detection", me.tempo.detection, (tref, tw, test), "tol", [0.0, 0.03125, 0.0625, 0.125, 0.5, 1.0])
        r = call(me.tempo.detection, tref, tw, test)
        if r[0] == "ok":
            nested("tempo both=>one", lambda: r[1][2], lambda: r[1][1], {"ref": tref.tolist(), "est": test.tolist()})
        ar, ae = gen.gen_alignment(rng, "random")
        mono("alignment.percentage_correct", al.percentage_correct, (ar, ae), "window", [0.0, 0.125, 0.25, 0.5, 1.0])
        # beat nested
        ba, bb = gen.gen_beats(rng, rng.choice(["random", "random", "duplicates"]))
        r = call(me.beat.cemgil, ba, bb)
        if r[0] == "ok":
            nested("cemgil<=best-level", lambda: r[1][0], lambda: r[1][1], {"ref": ba.tolist(), "est": bb.tolist()})
        r2 = call(me.beat.continuity, ba, bb)
        if r2[0] == "ok":
            c = r2[1]
            for nm, i, j in (("CMLc<=CMLt", 0, 1), ("AMLc<=AMLt", 2, 3), ("CMLc<=AMLc", 0, 2), ("CMLt<=AMLt", 1, 3)):
                nested(nm, lambda: c[i], lambda: c[j], {"ref": ba.tolist(), "est": bb.tolist()})
    # the repository's own fixtures: widening a tolerance on real annotations
    lim = None if thorough else 2
    take3 = lambda r: r[:3]  # noqa
    for nm, (a, b) in realdata.pairs(me, "beat", lim):
        mono("beat.f_measure", me.beat.f_measure, (a, b), "f_measure_threshold", [0.02, 0.07, 0.1, 0.2])
    for nm, (a, b) in realdata.pairs(me, "onset", lim):
        mono("onset.f_measure", me.onset.f_measure, (a, b), "window", [0.01, 0.05, 0.1], take=lambda r: (r[1], r[2], r[0]))
    for nm, (ri, rp, ei, ep) in realdata.pairs(me, "transcription", lim):
        mono("transcription.precision_recall_f1_overlap", tr.precision_recall_f1_overlap, (ri, rp, ei, ep), "onset_tolerance", [0.02, 0.05, 0.1], take=take3)
        mono("transcription.precision_recall_f1_overlap", tr.precision_recall_f1_overlap, (ri, rp, ei, ep), "pitch_tolerance", [25.0, 50.0, 100.0], take=take3)
        mono("transcription.precision_recall_f1_overlap", tr.precision_recall_f1_overlap, (ri, rp, ei, ep), "offset_ratio", [0.1, 0.2, 0.4], take=take3)
    for nm, (rt, rf, et, ef) in realdata.pairs(me, "melody", lim):
        v = mel.to_cent_voicing(rt, rf, et, ef)
        for name in ("raw_pitch_accuracy", "raw_chroma_accuracy", "overall_accuracy"):
            for t1, t2 in ((25, 50), (50, 100)):
                fn_ = getattr(mel, name)
                log.add("mono", "melody." + name, call(lambda: (fn_(*v, cent_tolerance=t1),)), call(lambda: (fn_(*v, cent_tolerance=t2),)),
                        {"param": "cent_tolerance", "t1": t1, "t2": t2, "fixture": "melody/" + nm})
    bad, st = log.judge()
    ev.tlc("Trace_Rel", st, "MonoSpec verdicts on recorded outcome pairs")
    ev.cov["traces_validated_against_impl"] = len(log.events)
    for fn, rel, clause, meta, a, b in bad:
        what = meta.get("pair", meta.get("param", meta.get("what", "")))
        rep.violation(fn if fn != "nested" else "nested:" + str(what).split(":")[0].split("[")[0],
                      "mono/" + (str(meta.get("param", "")) or "nested"), {"failing": clause, "input": meta, "tighter": a, "looser": b})
    for e in log.events:
        ev.case((e["fn"], str(log.meta[e["tid"]][2])[:300]),
                nontrivial=e["aexc"] == "ok" and [x["m9"] for x in e["a"]] != [x["m9"] for x in e["b"]])
    ev.sample({"fn": log.events[3]["fn"], "input": log.meta[4][2], "tighter": log.meta[4][3][1], "looser": log.meta[4][4][1]})
    ev.cov["rule"] = ("seeded inputs x every ordered pair t1<t2 of a per-parameter lattice containing the exact distances of the "
                      "input (others fixed), strict->non-strict, and the documented nested pairs; distinct = distinct (function, "
                      "input, parameter pair); non-trivial = the two outcomes differ")
    ev.d["assumptions"] = ["velocity: only velocity_tolerance is claimed monotone (other tolerances change the regression)",
                           "AOR is not claimed monotone (it averages over one maximum matching)"]
    code = rep.finish()
    ev.write(violations=len(rep.violations))
    return code


def replay(path):
    v = json.load(open(path))
    print(json.dumps(v, indent=1)[:3000])
    return run("quick", 0)
