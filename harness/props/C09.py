"""C09 - pitch spelling, joint transposition and octave are handled as documented.

chords : MC_C11 with Transpose=TRUE (MC_C09_chords) - every label pair of a family x 12 transpositions
         x 3 spelling policies; TLC checks on the specification that the twelve comparisons do not
         change; the transposed/respelled labels are replayed into the twelve functions; seeded chord
         annotations are transposed as a whole and chord.evaluate must not change by a bit.
keys   : MC_Key_T - the WHOLE key domain (52 keys squared) x 12 transpositions x every spelling of the
         transposed tonics; TLC checks invariance on the relationship table; replayed into
         key.weighted_score / key.evaluate with random letter case.
pitch  : melody, multipitch and note inputs scaled jointly by whole octaves (bit-identical results
         required), by 2^(j/12) (1e-9), estimate-only octave shifts (chroma scores unchanged), sign flip
         of estimated melody (raw pitch / chroma unchanged); the recorded outcome pairs are judged by
         Trace_Rel."""
import json
import random

import numpy as np

from .. import tlc, gen, realdata
from ..common import Evidence, Reporter, import_mir_eval, Machinery, frac
from ..relations import RelLog, call
from .C11 import check_rows, label, RULES

PROP = "C09"
SHARP = ["C", "C#", "D", "D#", "E", "F", "F#", "G", "G#", "A", "A#", "B"]
FLAT = ["C", "Db", "D", "Eb", "E", "F", "Gb", "G", "Ab", "A", "Bb", "B"]
SEMI = {"C": 0, "D": 2, "E": 4, "F": 5, "G": 7, "A": 9, "B": 11}


def transpose_label(lab, k, names):
    if lab in ("N", "X"):
        return lab
    i = 1
    while i < len(lab) and lab[i] in "b#":
        i += 1
    root, rest = lab[:i], lab[i:]
    s = (SEMI[root[0]] + root.count("#") - root.count("b") + k) % 12
    return names[s] + rest


def run(tier, seed):
    me = import_mir_eval()
    rng = random.Random(seed)
    ev = Evidence(PROP, tier, seed)
    rep = Reporter(PROP)
    thorough = tier == "thorough"

    # ---- chords
    cfg = "MC_C09_chords_T" if thorough else "MC_C09_chords"
    res = tlc.run("MC_C11", cfg=cfg, timeout=3400, heap="8g")
    rows = res["rows"]["ROW"]
    if len(rows) * 2 != res["distinct"]:
        raise Machinery("%s: %d rows for %d states" % (cfg, len(rows), res["distinct"]))
    ev.tlc(cfg, res, "invariant TransposeInvariant (12 transpositions x sharp/flat/remote spellings) on the specification")
    check_rows(me, rows, rep, ev, rng, PROP, singles=200)
    ev.sample({"chord_pair": [label(rows[7]["r0"]), label(rows[7]["e0"])], "transposed": [label(rows[7]["r"]), label(rows[7]["e"])],
               "k": rows[7]["k"], "spelling": rows[7]["sp"]})
    log = RelLog()
    for it in range(400 if thorough else 80):
        ri, rl, ei, el = gen.gen_chord_pair(rng, rng.choice(["random", "random", "identical", "duplicates"]))
        base = call(me.chord.evaluate, ri, rl, ei, el)
        for k in rng.sample(range(1, 12), 3):
            names = rng.choice([SHARP, FLAT])
            t = call(me.chord.evaluate, ri, [transpose_label(x, k, names) for x in rl], ei,
                     [transpose_label(x, k, rng.choice([SHARP, FLAT])) for x in el])
            log.add("same", "chord.evaluate", base, t, {"what": "joint transposition", "k": k, "ref_labels": rl, "est_labels": el,
                                                        "ref_intervals": ri.tolist(), "est_intervals": ei.tolist()})

    # ---- keys: the whole domain
    res = tlc.run("MC_Key", cfg="MC_Key_T", timeout=1200)
    krows = res["rows"]["ROW"]
    if len(krows) * 2 != res["distinct"]:
        raise Machinery("MC_Key_T: %d rows for %d states" % (len(krows), res["distinct"]))
    ev.tlc("MC_Key_T", res, "whole key domain x 12 transpositions; invariants InRange, SelfPerfect, TransposeInvariant")

    def kstr(x):
        if x["tonic"] < 0:
            return rng.choice(["X", "x"])
        n = x["name"]
        n = rng.choice([n, n.upper(), n[0].upper() + n[1:]])
        return n + " " + x["mode"]
    for r in krows:
        want = float(frac(r["score"]))
        for a in r["rs"]:
            for b in r["es"]:
                ka, kb = kstr(a), kstr(b)
                try:
                    got = me.key.weighted_score(ka, kb)
                    got2 = me.key.evaluate(ka, kb)["Weighted Score"]
                    bad = None if (got == want and got2 == want) else "score-differs"
                except Exception as ex:  # noqa
                    bad, got = "raised-" + type(ex).__name__, None
                if bad:
                    rep.violation("key.weighted_score", bad, {"ref": ka, "est": kb, "expected": want, "got": got,
                                                              "transposition": r["k"]})
                ev.case(("key", ka.lower(), kb.lower()), nontrivial=want not in (0.0,))
    ev.sample({"key_pair": [krows[99]["r"], krows[99]["e"]], "k": krows[99]["k"], "score": krows[99]["score"]})

    # ---- pitch scaling relations on the code, judged by Trace_Rel
    T = gen.catalogue(me)
    n = 250 if thorough else 60
    for it in range(n):
        shape = rng.choice(["random", "random", "identical", "disjoint", "duplicates"])
        # melody
        rt, rf, et, ef = gen.gen_melody(rng, shape)
        mkw = rng.choice([{}, {"base_frequency": 55.0}, {"base_frequency": 150.0}, {"base_frequency": 300.0},
                          {"cent_tolerance": 30}])      # valid, non-default cent origins / tolerances
        base = call(me.melody.evaluate, rt, rf, et, ef, **mkw)
        bfq = mkw.get("base_frequency", 10.0)

        def at_origin(*arrs):
            return bool(any(np.any(np.abs(x) == bfq) for x in arrs))
        for o in (2.0, 0.5, 4.0):
            log.add("same", "melody.evaluate", base, call(me.melody.evaluate, rt, rf * o, et, ef * o, **mkw),
                    {"what": "both x octave", "factor": o, "kw": mkw, "at_origin": at_origin(rf, ef, rf * o, ef * o), "ref_freq": rf.tolist(), "est_freq": ef.tolist(), "ref_time": rt.tolist(), "est_time": et.tolist()})
        j = rng.randint(1, 11)
        f = 2.0 ** (j / 12.0)
        log.add("close", "melody.evaluate", base, call(me.melody.evaluate, rt, rf * f, et, ef * f, **mkw),
                {"what": "both x 2^(j/12)", "j": j, "kw": mkw, "ref_freq": rf.tolist(), "est_freq": ef.tolist(), "ref_time": rt.tolist(), "est_time": et.tolist()})

        def chroma(est):
            bf = {k: v for k, v in mkw.items() if k == "base_frequency"}
            return call(lambda: me.melody.raw_chroma_accuracy(*me.melody.to_cent_voicing(rt, rf, et, est, **bf)))

        def rawboth(est):
            bf = {k: v for k, v in mkw.items() if k == "base_frequency"}
            return call(lambda: (me.melody.raw_pitch_accuracy(*me.melody.to_cent_voicing(rt, rf, et, est, **bf)),
                                 me.melody.raw_chroma_accuracy(*me.melody.to_cent_voicing(rt, rf, et, est, **bf))))
        oo = rng.choice([2.0, 0.5, 4.0])
        log.add("same", "melody.raw_chroma_accuracy", chroma(ef), chroma(ef * oo),
                {"what": "estimate-only octave shift", "kw": mkw, "at_origin": at_origin(rf, ef, ef * oo), "ref_freq": rf.tolist(), "est_freq": ef.tolist(), "ref_time": rt.tolist(), "est_time": et.tolist()})
        if np.array_equal(rt, et):       # same time base: no interpolation between voiced/unvoiced frames
            flip = ef.copy()
            idx = [i for i in range(len(ef)) if ef[i] > 0 and rng.random() < 0.5]
            flip[idx] *= -1
            log.add("same", "melody.raw_pitch+chroma", rawboth(ef), rawboth(flip),
                    {"what": "estimated frequencies negated (unvoiced)", "ref_freq": rf.tolist(), "est_freq": ef.tolist(), "flipped": idx})
            # ... also when the voicing is given explicitly (est_voicing): the sign then carries nothing at all, the magnitude is the pitch
            evx = np.array([rng.choice([0.0, 0.25, 1.0, 1.0]) for _ in ef])

            def rawboth_v(est):
                bf = {k: v for k, v in mkw.items() if k == "base_frequency"}
                return call(lambda: (me.melody.raw_pitch_accuracy(*me.melody.to_cent_voicing(rt, rf, et, est, est_voicing=evx.copy(), **bf)),
                                     me.melody.raw_chroma_accuracy(*me.melody.to_cent_voicing(rt, rf, et, est, est_voicing=evx.copy(), **bf))))
            flip2 = ef.copy()
            idx2 = [i for i in range(len(ef)) if ef[i] > 0 and rng.random() < 0.6]
            flip2[idx2] *= -1
            log.add("same", "melody.raw_pitch+chroma", rawboth_v(ef), rawboth_v(flip2),
                    {"what": "estimated frequencies negated, explicit est_voicing", "ref_freq": rf.tolist(), "est_freq": ef.tolist(), "flipped": idx2, "est_voicing": evx.tolist()})
        # multipitch (window 0.74: no pitch difference sits on the threshold)
        mt, mrf, met, mef = gen.gen_multipitch(rng, shape)
        base = call(me.multipitch.metrics, mt, mrf, met, mef, window=0.74)
        ok = all((x.size == 0 or (x.min() >= 45 and x.max() <= 2400)) for x in mrf + mef)
        if ok:
            for o in (2.0, 0.5):
                log.add("same", "multipitch.metrics", base,
                        call(me.multipitch.metrics, mt, [x * o for x in mrf], met, [x * o for x in mef], window=0.74),
                        {"what": "both x octave", "factor": o, "ref": [x.tolist() for x in mrf], "est": [x.tolist() for x in mef]})
            f = 2.0 ** (rng.randint(1, 11) / 12.0) / 2.0
            log.add("close", "multipitch.metrics", base,
                    call(me.multipitch.metrics, mt, [x * f for x in mrf], met, [x * f for x in mef], window=0.74),
                    {"what": "both x 2^(j/12)", "factor": f, "ref": [x.tolist() for x in mrf], "est": [x.tolist() for x in mef]})
            o = rng.choice([2.0, 0.5])
            a = call(lambda: me.multipitch.metrics(mt, mrf, met, mef, window=0.74)[7:])
            b = call(lambda: me.multipitch.metrics(mt, mrf, met, [x * o for x in mef], window=0.74)[7:])
            log.add("same", "multipitch.metrics[chroma]", a, b, {"what": "estimate-only octave shift", "factor": o,
                                                                  "ref": [x.tolist() for x in mrf], "est": [x.tolist() for x in mef]})
        # monophonic frames a quarter tone apart, through all twelve transpositions: one of them carries each pair across
        # the B/C boundary of the chroma circle (a wrapped distance of 0.5, an unwrapped one of 11.5)
        if it % 3 == 0:
            nfr = rng.randint(1, 4)
            us = [2 * rng.randint(-12, 12) + 1 for _ in range(nfr)]
            m_rf = [np.array([440.0 * 2 ** (u / 24.0)]) for u in us]
            m_ef = [np.array([440.0 * 2 ** ((u + rng.choice([1, -1])) / 24.0)]) for u in us]
            m_t = np.arange(nfr) * 0.25
            base = call(me.multipitch.metrics, m_t, m_rf, m_t, m_ef, window=0.74)
            for j in range(1, 12):
                f = 2.0 ** (j / 12.0)
                log.add("close", "multipitch.metrics", base, call(me.multipitch.metrics, m_t, [x * f for x in m_rf], m_t, [x * f for x in m_ef], window=0.74),
                        {"what": "both x 2^(j/12)", "factor": f, "ref": [x.tolist() for x in m_rf], "est": [x.tolist() for x in m_ef], "family": "mono"})
        # notes
        ri, rp, ei, ep = gen.gen_notes(rng, shape)
        for kw in ({}, {"offset_ratio": None}):
            base = call(me.transcription.precision_recall_f1_overlap, ri, rp, ei, ep, **kw)
            log.add("same", "transcription.precision_recall_f1_overlap", base,
                    call(me.transcription.precision_recall_f1_overlap, ri, rp * 2.0, ei, ep * 2.0, **kw),
                    {"what": "both x octave", "ref_pitches": rp.tolist(), "est_pitches": ep.tolist(), "kw": str(kw)})
            f = 2.0 ** (rng.randint(1, 11) / 12.0)
            log.add("close", "transcription.precision_recall_f1_overlap", base,
                    call(me.transcription.precision_recall_f1_overlap, ri, rp * f, ei, ep * f, **kw),
                    {"what": "both x 2^(j/12)", "factor": f, "ref_pitches": rp.tolist(), "est_pitches": ep.tolist(), "kw": str(kw)})
    # the repository's chord fixtures (real MIREX vocabulary): reference and estimate transposed together, sharp / flat spelling
    n_real = 0
    for nm, (ri, rl, ei, el) in realdata.pairs(me, "chord", None if thorough else 3):
        base = call(me.chord.evaluate, ri, rl, ei, el)
        for k in rng.sample(range(1, 12), 2):
            t = call(me.chord.evaluate, ri, [transpose_label(x, k, rng.choice([SHARP, FLAT])) for x in rl], ei,
                     [transpose_label(x, k, rng.choice([SHARP, FLAT])) for x in el])
            n_real += 1
            log.add("same", "chord.evaluate", base, t, {"what": "joint transposition", "k": k, "fixture": "chord/" + nm})
    ev.cov["repository_fixture_transpositions"] = n_real
    # fixed witnesses of the recorded findings' input class (a frequency exactly on base_frequency), whatever the seed
    w_t = np.arange(3) / 64.0
    w_rf, w_ef = np.array([220.0, 220.0, 440.0]), np.array([110.0, 220.0, 440.0])
    w_kw = {"base_frequency": 55.0}

    def w_chroma(est):
        return call(lambda: me.melody.raw_chroma_accuracy(*me.melody.to_cent_voicing(w_t, w_rf, w_t, est, **w_kw)))
    log.add("same", "melody.raw_chroma_accuracy", w_chroma(w_ef), w_chroma(w_ef * 0.5),
            {"what": "estimate-only octave shift", "kw": w_kw, "at_origin": True, "ref_freq": w_rf.tolist(), "est_freq": w_ef.tolist(), "witness": True})
    log.add("same", "melody.evaluate", call(me.melody.evaluate, w_t, w_rf, w_t, w_ef, **w_kw), call(me.melody.evaluate, w_t, w_rf * 0.5, w_t, w_ef * 0.5, **w_kw),
            {"what": "both x octave", "factor": 0.5, "kw": w_kw, "at_origin": True, "ref_freq": w_rf.tolist(), "est_freq": w_ef.tolist(), "witness": True})
    bad, st = log.judge()
    ev.tlc("Trace_Rel", st, "relation verdicts on recorded outcome pairs")
    ev.cov["traces_validated_against_impl"] = len(log.events) + len(rows) + len(krows)
    for fn, rel, clause, meta, a, b in bad:
        tag = rel + ":" + meta.get("what", "") + "/" + clause.split("@")[0]
        if meta.get("at_origin"):
            tag = "frequency-equals-base_frequency"
        rep.violation(fn.split("[")[0], tag,
                      {"relation": rel, "failing": clause, "input": meta, "a": a, "b": b})
    for e in log.events:
        ev.case(("rel", e["fn"], e["rel"], str(log.meta[e["tid"]][2])[:200]), nontrivial=e["aexc"] == "ok" and len(e["a"]) > 0)
    ev.cov["rule"] = ("chord pairs x 12 transpositions x 3 spellings (TLC) replayed; whole key domain x transpositions x "
                      "spellings replayed; seeded melody/multipitch/note inputs under octave / semitone / estimate-only / "
                      "sign-flip transformations judged by Trace_Rel; distinct = distinct (function, input, transformation)")
    ev.cov["exhaustive"] = True
    ev.d["assumptions"] = ["pitch lattices keep every pitch difference >= 10 cents away from the tolerances, as the property "
                           "stipulates for non-octave factors", "transformations are applied by the harness (trusted driver)"]
    code = rep.finish()
    ev.write(violations=len(rep.violations))
    return code


def replay(path):
    v = json.load(open(path))
    print(json.dumps(v, indent=1)[:3000])
    return run("quick", 0)
