"""C16 - segment labelling scores equal their clustering-index definitions.

SegmentCluster.tla samples both annotations on the frame grid, builds the contingency table and
defines pairwise P/R, Rand and ARI twice (by counting frame pairs / by binomial closed forms); MC_C16
enumerates every pair of labelled segmentations (<= 3 segments, labels incl. case variants and
repeats) x frame sizes, checks the two formulations equal, the identities (swap symmetry, perfect when
the partitions coincide, relabelling) and exports frame labels, table and the exact rational scores.
The entropy-based scores (MI, AMI, NMI, NCE, V) are textbook functions of the EXPORTED table; their
transcendental evaluation happens here (math.log on the spec's counts, exact hypergeometric weights),
with the conventions decided in the spec.  Every row is replayed into the six public functions."""
import json
import math
import random
from fractions import Fraction

import numpy as np

from .. import tlc
from ..common import Evidence, Reporter, import_mir_eval, Machinery, frac

PROP = "C16"
U = 0.25


# ---------------------------------------------------------------- textbook formulas on a contingency table
def table(cells):
    rows = sorted({c[0] for c in cells}); cols = sorted({c[1] for c in cells})
    n = {(c[0], c[1]): c[2] for c in cells}
    a = {r: sum(n[(r, c)] for c in cols) for r in rows}
    b = {c: sum(n[(r, c)] for r in rows) for c in cols}
    return rows, cols, n, a, b, sum(a.values())


def entropy(m, N, base=math.e):
    return -sum((v / N) * math.log(v / N, base) for v in m.values() if v > 0)


def mutual_info(cells):
    rows, cols, n, a, b, N = table(cells)
    return sum((v / N) * math.log(N * v / (a[r] * b[c])) for (r, c), v in n.items() if v > 0)


def expected_mi(cells):
    rows, cols, n, a, b, N = table(cells)
    emi = 0.0
    for r in rows:
        for c in cols:
            ai, bj = a[r], b[c]
            for nij in range(max(1, ai + bj - N), min(ai, bj) + 1):
                w = Fraction(math.comb(bj, nij) * math.comb(N - bj, ai - nij), math.comb(N, ai))     # hypergeometric
                emi += (nij / N) * math.log(N * nij / (ai * bj)) * float(w)
    return emi


def cond_entropy_bits(cells, given_cols):
    """H(rows | cols) if given_cols else H(cols | rows), base 2"""
    rows, cols, n, a, b, N = table(cells)
    h = 0.0
    for (r, c), v in n.items():
        if v > 0:
            m = b[c] if given_cols else a[r]
            h -= (v / N) * math.log2(v / m)
    return h


def fmeasure(p, r, beta):
    if p == 0 and r == 0:
        return 0.0
    return (1 + beta ** 2) * p * r / (beta ** 2 * p + r)


def expected_scores(out, beta, marginal):
    cells = out["cells"]
    rows, cols, n, a, b, N = table(cells)
    exp = {}
    pp, pr = out["pp"], out["pr"]
    if pp[1] != 0 and pr[1] != 0:
        P, R = float(frac(pp)), float(frac(pr))
        exp["pairwise"] = (P, R, fmeasure(P, R, beta))
    if out["rand"][1] != 0:
        exp["rand_index"] = (float(frac(out["rand"])),)
    if out["ari"][1] != 0:
        exp["ari"] = (float(frac(out["ari"])),)
    single = len(rows) == 1 and len(cols) == 1
    mi = mutual_info(cells)
    ha, hb = entropy(a, N), entropy(b, N)
    if single:
        exp["mutual_information"] = (mi, 1.0, 1.0)
    else:
        emi = expected_mi(cells)
        den = max(ha, hb) - emi
        ami = (mi - emi) / den if abs(den) > 1e-12 else None
        nmi = mi / math.sqrt(ha * hb) if ha > 0 and hb > 0 else None     # one side a single cluster: 0/0, unspecified
        exp["mutual_information"] = (mi, ami, nmi)
    z_ref = entropy(a, N, 2) if marginal else math.log2(len(rows))
    z_est = entropy(b, N, 2) if marginal else math.log2(len(cols))
    under = 1.0 - cond_entropy_bits(cells, True) / z_ref if z_ref > 0 else 0.0
    over = 1.0 - cond_entropy_bits(cells, False) / z_est if z_est > 0 else 0.0
    exp["nce"] = (over, under, fmeasure(over, under, beta))
    return exp


def run(tier, seed):
    me = import_mir_eval()
    rng = random.Random(seed)
    ev = Evidence(PROP, tier, seed)
    rep = Reporter(PROP)
    thorough = tier == "thorough"
    cfg = "MC_C16_T" if thorough else "MC_C16"
    res = tlc.run("MC_C16", cfg=cfg, timeout=3400, heap="8g")
    rows = res["rows"]["ROW"]
    if len(rows) * 2 != res["distinct"]:
        raise Machinery("%s: %d rows for %d states" % (cfg, len(rows), res["distinct"]))
    ev.tlc(cfg, res, "invariants FormulationsAgree, SwapSym, InRange, PerfectWhenSame, RelabelInv")
    s = me.segment
    step = 1 if thorough else 4
    # the same model on the DECIMAL frame grid of real annotations: time unit 0.1 s (frame sizes 0.1 / 0.2 / 0.5 s, the
    # documented default among them), boundaries at multiples of 0.5 s, 20 frames - none of it exactly representable
    res = tlc.run("MC_C16", cfg="MC_C16_dec", timeout=3400, heap="8g")
    drows = res["rows"]["ROW"]
    if len(drows) * 2 != res["distinct"]:
        raise Machinery("MC_C16_dec: %d rows for %d states" % (len(drows), res["distinct"]))
    ev.tlc("MC_C16_dec", res, "the same invariants on a 20-frame track (boundaries every 5 frames)")
    for r in drows:
        r["decimal"] = True
    for k, r in enumerate(rows + drows):
        dec = r.get("decimal", False)
        if not thorough and (k + seed) % (3 if dec else 2):
            continue                  # the quick tier replays every second / third row (TLC still checked them all)
        sc = (lambda x: np.array(x, dtype=float) / 10.0) if dec else (lambda x: np.array(x, dtype=float) * U)
        ri = sc(r["ref"]["ivs"])
        ei = sc(r["est"]["ivs"])
        rl, el = r["ref"]["labs"], r["est"]["labs"]
        fs = float(sc(r["fs"]))
        beta = rng.choice([0.5, 1.0, 2.0])
        out = r["out"]
        detail = {"ref_intervals": ri.tolist(), "ref_labels": rl, "est_intervals": ei.tolist(), "est_labels": el,
                  "frame_size": fs, "beta": beta, "spec": {"yr": out["yr"], "ye": out["ye"], "cells": out["cells"]}, "decimal_grid": dec}
        nr, ne = len(set(out["yr"])), len(set(out["ye"]))
        cls = ("single-frame" if len(out["yr"]) <= 1 else "all-distinct-labels" if (nr == len(out["yr"]) or ne == len(out["ye"]))
               else "one-label-side" if (nr == 1 or ne == 1) else "general")
        exp = expected_scores(out, beta, False)
        expm = expected_scores(out, beta, True)
        calls = [("pairwise", lambda: s.pairwise(ri, rl, ei, el, frame_size=fs, beta=beta), exp.get("pairwise")),
                 ("rand_index", lambda: (s.rand_index(ri, rl, ei, el, frame_size=fs),), exp.get("rand_index")),
                 ("ari", lambda: (s.ari(ri, rl, ei, el, frame_size=fs),), exp.get("ari")),
                 ("nce", lambda: s.nce(ri, rl, ei, el, frame_size=fs, beta=beta), exp["nce"]),
                 ("nce[marginal]", lambda: s.nce(ri, rl, ei, el, frame_size=fs, beta=beta, marginal=True), expm["nce"]),
                 ("vmeasure", lambda: s.vmeasure(ri, rl, ei, el, frame_size=fs, beta=beta), expm["nce"])]
        if k % step == 0:
            calls.append(("mutual_information", lambda: s.mutual_information(ri, rl, ei, el, frame_size=fs), exp["mutual_information"]))
        for name, f, want in calls:
            if want is None:
                continue            # the index is 0/0 on this input (no agreeing pair / one frame): nothing is specified
            try:
                got = [float(x) for x in f()]
            except Exception as ex:  # noqa
                rep.violation("segment." + name.split("[")[0], cls + "/raised-" + type(ex).__name__, dict(detail, message=str(ex)[:200]))
                continue
            for pos, (g, w) in enumerate(zip(got, want)):
                if w is None:
                    continue
                tol = 1e-9
                if not (abs(g - w) <= tol):
                    rep.violation("segment." + name.split("[")[0], cls + "/value-differs@%d" % (pos + 1),
                                  dict(detail, function=name, position=pos + 1, got=g, expected=w))
                    break
            if len(got) != len(want):
                rep.violation("segment." + name.split("[")[0], cls + "/arity", dict(detail, got=got))
        # vmeasure is IDENTICAL to nce(marginal=True)
        try:
            v1 = s.vmeasure(ri, rl, ei, el, frame_size=fs, beta=beta)
            v2 = s.nce(ri, rl, ei, el, frame_size=fs, beta=beta, marginal=True)
            if tuple(map(float, v1)) != tuple(map(float, v2)):
                rep.violation("segment.vmeasure", cls + "/differs-from-nce-marginal", dict(detail, vmeasure=list(map(float, v1)), nce=list(map(float, v2))))
        except Exception:
            pass
        ev.case((r["ref"], r["est"], r["fs"]), nontrivial=cls == "general")
    # segment.evaluate as a composition (MC_C16_eval): alignment by specification, then all 21 entries
    cfg2 = "MC_C16_eval_T" if thorough else "MC_C16_eval"
    res = tlc.run("MC_C16_eval", cfg=cfg2, timeout=3400, heap="8g")
    erows = res["rows"]["ROW"]
    if len(erows) * 2 != res["distinct"]:
        raise Machinery("%s: %d rows for %d states" % (cfg2, len(erows), res["distinct"]))
    ev.tlc(cfg2, res, "alignment (AdjustSpec) composed with detection / deviation / frame clustering; invariants Aligned, InRange")
    n_eval = 0
    for k, r in enumerate(erows):
        if (k + seed) % (7 if thorough else 1):
            continue
        ri = np.array(r["ref"]["ivs"], dtype=float) * U
        ei = np.array(r["est"]["ivs"], dtype=float) * U
        rl, el = r["ref"]["labs"], r["est"]["labs"]
        fs = r["fs"] * U
        out = r["out"]
        exp = expected_scores(out, 1.0, False)
        expm = expected_scores(out, 1.0, True)
        f3 = lambda d: [float(frac(d["p"])), float(frac(d["r"])), float(frac(d["f"]))]  # noqa
        want = f3(out["d05"]) + f3(out["d3"]) + [float(frac(out["dev"][0])) * U, float(frac(out["dev"][1])) * U]
        want += list(exp.get("pairwise", (None, None, None))) + list(exp.get("rand_index", (None,))) + list(exp.get("ari", (None,)))
        want += list(exp["mutual_information"]) + list(exp["nce"]) + list(expm["nce"])
        detail = {"ref_intervals": ri.tolist(), "ref_labels": rl, "est_intervals": ei.tolist(), "est_labels": el, "frame_size": fs,
                  "aligned_est": out["estA"], "aligned_ref": out["refA"]}
        n_eval += 1
        # stage by stage: the intermediate states of the composition against the public stage functions
        try:
            ra_i, ra_l = me.util.adjust_intervals(ri, labels=list(rl), t_min=0.0)
            ea_i, ea_l = me.util.adjust_intervals(ei, labels=list(el), t_min=0.0, t_max=ra_i.max())
            stage = None
            for nm, (gi, gl), want_st in (("AdjustRef", (ra_i, ra_l), out["refA"]), ("AdjustEst", (ea_i, ea_l), out["estA"])):
                if [[int(round(a / U)), int(round(b / U))] for a, b in gi.tolist()] != [list(x) for x in want_st["ivs"]] or list(gl) != list(want_st["labs"]):
                    stage = (nm, {"got": [gi.tolist(), list(gl)], "expected": want_st})
            if stage is None:
                for nm, (gi, gl), want_y in (("SampleRef", (ra_i, ra_l), out["yr"]), ("SampleEst", (ea_i, ea_l), out["ye"])):
                    fl = me.util.intervals_to_samples(gi, gl, sample_size=fs)[-1]
                    if [str(x).lower() for x in fl] != [str(x).lower() for x in want_y]:
                        stage = (nm, {"got": list(fl), "expected": list(want_y)})
            if stage is not None:
                rep.violation("segment.evaluate", "stage/" + stage[0] + "-state-differs", dict(detail, **stage[1]))
                continue
        except Exception as ex:  # noqa
            rep.violation("segment.evaluate", "stage/raised-" + type(ex).__name__, dict(detail, message=str(ex)[:200]))
            continue
        try:
            d = s.evaluate(ri, rl, ei, el, frame_size=fs)
            got = [float(x) for x in d.values()]
        except Exception as ex:  # noqa
            rep.violation("segment.evaluate", "aligned/raised-" + type(ex).__name__, dict(detail, message=str(ex)[:200]))
            continue
        if len(got) != len(want):
            rep.violation("segment.evaluate", "aligned/arity", dict(detail, got=got))
            continue
        for pos, (g, w) in enumerate(zip(got, want)):
            if w is not None and not abs(g - w) <= 1e-9:
                rep.violation("segment.evaluate", "aligned/value-differs@" + list(d.keys())[pos], dict(detail, got=g, expected=w, entry=list(d.keys())[pos]))
                break
        ev.case(("eval", r["ref"], r["est"], r["fs"]), nontrivial=out["estA"]["ivs"] != r["est"]["ivs"])
    ev.cov["evaluate_compositions_replayed"] = n_eval
    ev.sample({"model": cfg2, "row": {k2: erows[len(erows) // 2][k2] for k2 in ("ref", "est", "fs")}})
    ev.cov["traces_validated_against_impl"] = len(rows) if thorough else len(rows) // 2
    ev.sample({"row": {k: rows[len(rows) // 2][k] for k in ("ref", "est", "fs")}, "spec": rows[len(rows) // 2]["out"]})
    ev.cov["rule"] = ("every pair of labelled segmentations of the model x frame sizes, random beta in {1/2,1,2}; six functions "
                      "(mutual_information on every %s row) compared to 1e-9 with the specification's exact rationals / textbook "
                      "evaluation of its table; the same on the decimal frame grid (MC_C16_dec) and for segment.evaluate as a composition with its "
                      "intermediate states (MC_C16_eval); distinct = distinct (annotations, frame size); non-trivial = both sides have a "
                      "repeated and at least two labels" % ("" if thorough else "third"))
    ev.cov["exhaustive"] = True
    ev.d["assumptions"] = ["time unit 0.25 s (exact in float32): frames fall exactly on interval boundaries, the later interval wins",
                           "log / hypergeometric evaluation in the harness (math.log, exact binomials) on the spec's table",
                           "where an index is 0/0 on the input nothing is specified (the NaN outcomes are recorded under C01)",
                           "NMI with a single-label side is 0/0 in the textbook formula and is not compared (its value is a C01 finding)"]
    code = rep.finish()
    ev.write(violations=len(rep.violations))
    return code


def replay(path):
    v = json.load(open(path))
    print(json.dumps(v, indent=1)[:3000])
    return run("quick", 0)
