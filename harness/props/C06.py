"""C06 - swapping reference and estimate exchanges precision and recall.

Specification level: MC_C05_events / MC_C05_notes check on every enumerated input that the size of
a maximum matching is the same after exchanging the two sides (invariant SwapSym), i.e. the hit
count that P and R share is symmetric; MC_C16 (invariant SwapSym) checks the contingency-table
transposition.  Code level: for every function of Relations!SwapSpec the harness calls f(a, b) and
f(b, a) on seeded inputs that are admissible in both roles and have UNEQUAL sizes (equal sizes hide
a wrong-side normaliser), including exact-threshold distances, and Trace_Rel judges the pair with
the table (which positions exchange, which stay, bit-identical or 1e-9)."""
import json
import random

import numpy as np

from .. import tlc, gen, realdata
from ..common import Evidence, Reporter, import_mir_eval
from ..relations import RelLog, call

PROP = "C06"


def unequal_events(rng, lo=0, hi=60, unit=0.125):
    n, m = rng.randint(1, 8), rng.randint(1, 8)
    if n == m:
        m += 1
    a = np.array(sorted(rng.randint(lo, hi) for _ in range(n)), dtype=float) * unit
    # estimates cluster around the references at distances 0, 1, 2, 4 lattice units (exactly on and off the window)
    b = np.array(sorted(max(lo, int(rng.choice(a / unit)) + rng.choice([-4, -2, -1, 0, 1, 2, 4])) if rng.random() < 0.8
                        else rng.randint(lo, hi) for _ in range(m)), dtype=float) * unit
    return a, b


def run(tier, seed):
    me = import_mir_eval()
    rng = random.Random(seed)
    ev = Evidence(PROP, tier, seed)
    rep = Reporter(PROP)
    thorough = tier == "thorough"
    # specification level: symmetric hit counts on every enumerated input
    res = tlc.run("MC_C05_events", cfg="MC_C05_events_T" if thorough else "MC_C05_events", timeout=3000, heap="8g", want=())
    ev.tlc("MC_C05_events", res, "invariant SwapSym: maximum matching size symmetric under exchange of the sides")
    res = tlc.run("MC_C16", cfg="MC_C16_T" if thorough else "MC_C16", timeout=3000, heap="8g", want=())
    ev.tlc("MC_C16", res, "contingency table transposes; pair-counting P/R exchange; Rand/ARI symmetric")

    res = tlc.run("MC_C04_pattern", cfg="MC_C04_pattern", timeout=3000, heap="8g")
    ev.tlc("MC_C04_pattern", res, "invariant SwapSym on the establishment / occurrence / three-layer definitions")
    prow = res["rows"]["ROW"]
    log = RelLog()
    # every pair of pattern annotations of the model (one pattern relevant to several on the other side, unequal sizes)
    for k, r in enumerate(prow):
        if (k + seed) % (2 if thorough else 6) or not r["ref"] or not r["est"]:
            continue
        A = [[[(float(o) * 0.5, float(m)) for o, m in occ] for occ in p] for p in r["ref"]]
        Bq = [[[(float(o) * 0.5, float(m)) for o, m in occ] for occ in p] for p in r["est"]]
        for name, kw in (("establishment_FPR", {}), ("occurrence_FPR", {"thres": 0.5}), ("occurrence_FPR", {}), ("three_layer_FPR", {})):
            fn = getattr(me.pattern, name)
            log.add("swap", "pattern." + name, call(fn, A, Bq, **kw), call(fn, Bq, A, **kw), {"ref": A, "est": Bq, "kw": kw, "source": "MC_C04_pattern"})
    n = 400 if thorough else 80
    s, h, p, tr, mp, c = me.segment, me.hierarchy, me.pattern, me.transcription, me.multipitch, me.chord
    for it in range(n):
        a, b = unequal_events(rng)
        for w in (0.125, 0.25, 0.5):
            log.add("swap", "onset.f_measure", call(me.onset.f_measure, a, b, window=w), call(me.onset.f_measure, b, a, window=w),
                    {"a": a.tolist(), "b": b.tolist(), "window": w})
        a5, b5 = a + 5.0, b + 5.0
        log.add("swap", "beat.f_measure", call(me.beat.f_measure, a5, b5, f_measure_threshold=0.25),
                call(me.beat.f_measure, b5, a5, f_measure_threshold=0.25), {"a": a5.tolist(), "b": b5.tolist(), "threshold": 0.25})
        # segments: same span, different numbers of segments
        ri, rl, ei, el = gen.gen_segment_pair(rng, rng.choice(["random", "random", "duplicates", "disjoint"]))
        if len(ri) and len(ei):
            for w, trim in ((0.25, False), (0.5, True), (3.0, False)):
                log.add("swap", "segment.detection", call(s.detection, ri, ei, window=w, trim=trim), call(s.detection, ei, ri, window=w, trim=trim),
                        {"ref": ri.tolist(), "est": ei.tolist(), "window": w, "trim": trim})
            log.add("swap", "segment.deviation", call(s.deviation, ri, ei), call(s.deviation, ei, ri), {"ref": ri.tolist(), "est": ei.tolist()})
            fs = rng.choice([0.25, 0.5])
            for name in ("pairwise", "rand_index", "ari", "mutual_information", "nce", "vmeasure"):
                fn = getattr(s, name)
                kw = {"frame_size": fs}
                if name == "nce" and rng.random() < 0.5:
                    kw["marginal"] = True
                log.add("swap", "segment." + name, call(fn, ri, rl, ei, el, **kw), call(fn, ei, el, ri, rl, **kw),
                        {"ref": ri.tolist(), "ref_labels": rl, "est": ei.tolist(), "est_labels": el, "kw": kw})
            # chord segmentation scores on equal spans
            def ous(x, y):
                return (c.overseg(x, y), c.underseg(x, y), c.seg(x, y))
            log.add("swap", "chord.overunderseg", call(ous, ri, ei), call(ous, ei, ri), {"ref": ri.tolist(), "est": ei.tolist()})
        # multipitch on identical time bases
        mt, mrf, met, mef = gen.gen_multipitch(rng, "random")
        if len(mt) == len(met) and np.array_equal(mt, met):
            for w in (0.5, 0.74, 1.0):
                log.add("swap", "multipitch.metrics", call(mp.metrics, mt, mrf, met, mef, window=w), call(mp.metrics, met, mef, mt, mrf, window=w),
                        {"ref": [x.tolist() for x in mrf], "est": [x.tolist() for x in mef], "window": w})
        # notes
        ri2, rp, ei2, ep = gen.gen_notes(rng, rng.choice(["random", "random", "duplicates", "disjoint"]))
        for strict in (False, True):
            ot = rng.choice([1 / 16.0, 2 / 16.0])
            log.add("swap", "transcription.onset_precision_recall_f1", call(tr.onset_precision_recall_f1, ri2, ei2, onset_tolerance=ot, strict=strict),
                    call(tr.onset_precision_recall_f1, ei2, ri2, onset_tolerance=ot, strict=strict),
                    {"ref": ri2.tolist(), "est": ei2.tolist(), "onset_tolerance": ot, "strict": strict})
            f3 = lambda *a, **k: tr.precision_recall_f1_overlap(*a, **k)[:3]  # noqa
            log.add("swap", "transcription.precision_recall_f1_overlap[no_offset]",
                    call(f3, ri2, rp, ei2, ep, offset_ratio=None, onset_tolerance=ot, strict=strict),
                    call(f3, ei2, ep, ri2, rp, offset_ratio=None, onset_tolerance=ot, strict=strict),
                    {"ref": ri2.tolist(), "ref_pitches": rp.tolist(), "est": ei2.tolist(), "est_pitches": ep.tolist(),
                     "onset_tolerance": ot, "strict": strict})
        # patterns
        pr, pe = gen.gen_patterns(rng, rng.choice(["random", "random", "duplicates"]))
        if pr and pe:
            for name, kw in (("establishment_FPR", {}), ("occurrence_FPR", {"thres": 0.5}), ("occurrence_FPR", {}), ("three_layer_FPR", {})):
                fn = getattr(p, name)
                log.add("swap", "pattern." + name, call(fn, pr, pe, **kw), call(fn, pe, pr, **kw), {"ref": pr, "est": pe, "kw": kw})
        # hierarchies
        hri, hrl, hei, hel = gen.gen_hierarchy(rng, "random")
        for kw in ({"frame_size": 0.25, "window": 1.0}, {"frame_size": 0.5, "window": None, "transitive": True}, {"frame_size": 0.25}):
            log.add("swap", "hierarchy.tmeasure", call(h.tmeasure, hri, hei, **kw), call(h.tmeasure, hei, hri, **kw),
                    {"ref": [x.tolist() for x in hri], "est": [x.tolist() for x in hei], "kw": str(kw)})
        log.add("swap", "hierarchy.lmeasure", call(h.lmeasure, hri, hrl, hei, hel, frame_size=0.25), call(h.lmeasure, hei, hel, hri, hrl, frame_size=0.25),
                {"ref": [x.tolist() for x in hri], "ref_labels": hrl, "est": [x.tolist() for x in hei], "est_labels": hel})
    # the repository's own annotation fixtures in both roles (real-world sizes)
    lim = None if thorough else 3
    n_real = 0
    for nm, (a, b) in realdata.pairs(me, "onset", lim):
        n_real += 1
        log.add("swap", "onset.f_measure", call(me.onset.f_measure, a, b), call(me.onset.f_measure, b, a), {"fixture": "onset/" + nm})
    for nm, (a, b) in realdata.pairs(me, "beat", lim):
        n_real += 1
        log.add("swap", "beat.f_measure", call(me.beat.f_measure, a, b), call(me.beat.f_measure, b, a), {"fixture": "beat/" + nm})
    for nm, (ri, rp, ei, ep) in realdata.pairs(me, "transcription", lim):
        n_real += 1
        log.add("swap", "transcription.onset_precision_recall_f1", call(tr.onset_precision_recall_f1, ri, ei), call(tr.onset_precision_recall_f1, ei, ri),
                {"fixture": "transcription/" + nm})
        f3 = lambda *a_, **k_: tr.precision_recall_f1_overlap(*a_, **k_)[:3]  # noqa
        log.add("swap", "transcription.precision_recall_f1_overlap[no_offset]", call(f3, ri, rp, ei, ep, offset_ratio=None),
                call(f3, ei, ep, ri, rp, offset_ratio=None), {"fixture": "transcription/" + nm})
    for nm, (pr, pe) in realdata.pairs(me, "pattern", lim):
        n_real += 1
        for name, kw in (("establishment_FPR", {}), ("occurrence_FPR", {"thres": 0.5}), ("occurrence_FPR", {}), ("three_layer_FPR", {})):
            fn = getattr(p, name)
            log.add("swap", "pattern." + name, call(fn, pr, pe, **kw), call(fn, pe, pr, **kw), {"fixture": "pattern/" + nm, "kw": kw})
    for nm, (ri, rl, ei, el) in realdata.pairs(me, "segment", lim):
        n_real += 1
        ri, rl = me.util.adjust_intervals(ri, labels=list(rl), t_min=0.0)
        ei, el = me.util.adjust_intervals(ei, labels=list(el), t_min=0.0, t_max=ri.max())
        log.add("swap", "segment.detection", call(s.detection, ri, ei), call(s.detection, ei, ri), {"fixture": "segment/" + nm})
        log.add("swap", "segment.deviation", call(s.deviation, ri, ei), call(s.deviation, ei, ri), {"fixture": "segment/" + nm})
        for name in ("pairwise", "rand_index", "ari", "mutual_information", "nce", "vmeasure"):
            fn = getattr(s, name)
            log.add("swap", "segment." + name, call(fn, ri, rl, ei, el), call(fn, ei, el, ri, rl), {"fixture": "segment/" + nm})
    ev.cov["repository_fixture_pairs_swapped"] = n_real
    bad, st = log.judge()
    ev.tlc("Trace_Rel", st, "SwapSpec verdicts on recorded outcome pairs")
    ev.cov["traces_validated_against_impl"] = len(log.events)
    for fn, rel, clause, meta, a, b in bad:
        rep.violation(fn, "swap/" + clause.split("@")[0], {"failing": clause, "input": meta, "f(a,b)": a, "f(b,a)": b})
    for e in log.events:
        ev.case((e["fn"], str(log.meta[e["tid"]][2])[:300]), nontrivial=e["aexc"] == "ok" and any(x["m9"] not in (0, 10 ** 9) for x in e["a"]))
    ev.sample({"fn": log.events[0]["fn"], "input": log.meta[1][2], "f(a,b)": log.meta[1][3][1], "f(b,a)": log.meta[1][4][1]})
    ev.cov["rule"] = ("seeded inputs of unequal sizes admissible in both roles, incl. exact-threshold distances, for the 19 functions "
                      "of Relations!SwapSpec, + the repository's annotation fixtures in both roles; distinct = distinct (function, input, parameters); non-trivial = some score strictly "
                      "between 0 and 1")
    ev.d["assumptions"] = ["the exchange of arguments is performed by the harness; beta = 1 throughout", "asymmetric criteria "
                           "(offset tolerances, Cemgil, Goto, continuity, standard_FPR, first-n, melody, AOR) are not claimed"]
    code = rep.finish()
    ev.write(violations=len(rep.violations))
    return code


def replay(path):
    v = json.load(open(path))
    print(json.dumps(v, indent=1)[:3000])
    return run("quick", 0)
