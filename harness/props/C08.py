"""C08 - scores ignore time origin, item order and segment label names.

Specification level: MC_C08 (shifting both sides leaves every feasibility graph and every
chord.evaluate score unchanged; permuting notes permutes the graph and keeps the maximum matching
size) and MC_C16 (invariant RelabelInv: a label bijection changes no clustering index).
Code level: seeded inputs on dyadic lattices are transformed by the harness - Shift(d) with dyadic d,
permutations of notes / of the frequencies inside a frame / of the two estimated tempi / of the
reference pattern list, label bijections (incl. sort-order-reversing names and case changes) - and the
recorded outcome pairs are judged by Trace_Rel: bit-identical for shifts and permutations of
count-based scores, 1e-9 where a sum is re-associated."""
import json
import random

import numpy as np

from .. import tlc, gen, realdata
from ..common import Evidence, Reporter, import_mir_eval
from ..relations import RelLog, call

PROP = "C08"


def run(tier, seed):
    me = import_mir_eval()
    rng = random.Random(seed)
    ev = Evidence(PROP, tier, seed)
    rep = Reporter(PROP)
    thorough = tier == "thorough"
    res = tlc.run("MC_C08", cfg="MC_C08_T" if thorough else "MC_C08", timeout=3000, heap="8g", want=())
    ev.tlc("MC_C08", res, "invariants ShiftInvariant, PermuteInvariant on the definitions")
    res = tlc.run("MC_C16", cfg="MC_C16_T" if thorough else "MC_C16", timeout=3000, heap="8g", want=())
    ev.tlc("MC_C16", res, "invariant RelabelInv on the clustering indices")

    log = RelLog()
    b, tr, tv, mp, al, p, c, s, h = (me.beat, me.transcription, me.transcription_velocity, me.multipitch, me.alignment,
                                     me.pattern, me.chord, me.segment, me.hierarchy)
    n = 300 if thorough else 60
    for it in range(n):
        d = rng.choice([0.125, 0.5, 1.0, 3.25, 16.0, 100.0])
        shape = rng.choice(["random", "random", "duplicates", "clustered", "identical"])
        # ---- Shift
        ra, ea = gen.gen_beats(rng, shape)
        ra, ea = ra[ra >= 5.0], ea[ea >= 5.0]                      # keep every beat at or after the trim time
        for name, kw in (("f_measure", {}), ("cemgil", {}), ("goto", {}), ("p_score", {}), ("continuity", {}), ("information_gain", {}),
                         ("evaluate", {})):
            fn = getattr(b, name)
            log.add("same", "beat." + name, call(fn, ra, ea, **kw), call(fn, ra + d, ea + d, **kw),
                    {"what": "shift", "d": d, "ref": ra.tolist(), "est": ea.tolist()})
        # regular beats with the estimate displaced to the EDGE of the P-score / continuity / Goto windows, shifted by amounts
        # that are not multiples of the 10 ms P-score grid (dyadic, so the shift itself is exact; seeded C08r6-B)
        per = rng.choice([0.5, 0.625, 0.75])
        rb = 10.0 + per * np.arange(rng.randint(6, 12))
        eb = rb + rng.choice([5, 6, 7, 8, 9, 10, 11]) / 64.0 * (per / 0.5)
        d2 = rng.choice([1, 3, 9, 21, 37]) / 64.0 + rng.choice([0.0, 2.0])
        for name in ("p_score", "cemgil", "goto", "continuity", "information_gain", "f_measure", "evaluate"):
            fn = getattr(b, name)
            log.add("same", "beat." + name, call(fn, rb, eb), call(fn, rb + d2, eb + d2),
                    {"what": "shift", "d": d2, "ref": rb.tolist(), "est": eb.tolist(), "family": "window edge, off-grid shift"})
        oa, ob = gen.gen_events(rng, shape)
        log.add("same", "onset.evaluate", call(me.onset.evaluate, oa, ob, window=0.125), call(me.onset.evaluate, oa + d, ob + d, window=0.125),
                {"what": "shift", "d": d, "ref": oa.tolist(), "est": ob.tolist()})
        # annotations anchored at the time origin itself (t = 0 is a time like any other)
        z_ref = np.array(rng.choice([[0.0], [0.0, 0.0], [0.0, 1.5]]))
        z_est = np.array(rng.choice([[0.0], [0.03125, 1.0], [0.0, 0.0625], [0.0, 0.0]]))
        for fn_name, fn in (("onset.f_measure", me.onset.f_measure), ("onset.evaluate", me.onset.evaluate)):
            for a_, b_ in ((z_ref, z_est), (z_est, z_ref)):
                log.add("same", fn_name, call(fn, a_, b_), call(fn, a_ + d, b_ + d), {"what": "shift", "d": d, "ref": a_.tolist(), "est": b_.tolist(),
                                                                                       "family": "anchored at 0"})
        z_iv = np.array([[0.0, 0.5]])
        z_iv2 = np.array(rng.choice([[[0.0, 0.5]], [[0.0, 0.4375], [1.0, 2.0]]]))
        zp, zp2 = np.array([440.0]), np.full(len(z_iv2), 440.0)
        log.add("same", "transcription.evaluate", call(tr.evaluate, z_iv, zp, z_iv2, zp2), call(tr.evaluate, z_iv + d, zp, z_iv2 + d, zp2),
                {"what": "shift", "d": d, "ref": z_iv.tolist(), "est": z_iv2.tolist(), "family": "anchored at 0"})
        z_t = np.array([0.0])
        z_f = [np.array([440.0, 660.0])]
        log.add("same", "multipitch.evaluate", call(mp.evaluate, z_t, z_f, z_t, z_f), call(mp.evaluate, z_t + d, z_f, z_t + d, z_f),
                {"what": "shift", "d": d, "ref_times": [0.0], "est_times": [0.0], "family": "anchored at 0"})
        z_al, z_al2 = np.array([0.0, 1.0]), np.array(rng.choice([[0.0, 1.0], [0.0, 0.0], [0.25, 1.0]]))
        log.add("same", "alignment.evaluate", call(al.evaluate, z_al, z_al2), call(al.evaluate, z_al + d, z_al2 + d),
                {"what": "shift", "d": d, "ref": z_al.tolist(), "est": z_al2.tolist(), "family": "anchored at 0"})
        nri, nrp, nrv, nei, nep, nev = gen.gen_notes(rng, rng.choice(["random", "random", "duplicates"]), velocity=True)
        for kw in ({}, {"onset_tolerance": 0.125, "strict": True}):
            log.add("same", "transcription.evaluate", call(tr.evaluate, nri, nrp, nei, nep, **kw), call(tr.evaluate, nri + d, nrp, nei + d, nep, **kw),
                    {"what": "shift", "d": d, "ref": nri.tolist(), "est": nei.tolist(), "kw": str(kw)})
        log.add("same", "transcription_velocity.evaluate", call(tv.evaluate, nri, nrp, nrv, nei, nep, nev),
                call(tv.evaluate, nri + d, nrp, nrv, nei + d, nep, nev), {"what": "shift", "d": d, "ref": nri.tolist(), "est": nei.tolist()})
        mt, mrf, met, mef = gen.gen_multipitch(rng, rng.choice(["random", "random", "disjoint"]))
        log.add("same", "multipitch.evaluate", call(mp.evaluate, mt, mrf, met, mef), call(mp.evaluate, mt + d, mrf, met + d, mef),
                {"what": "shift", "d": d, "ref_times": mt.tolist(), "est_times": met.tolist()})
        ar, ae = gen.gen_alignment(rng, rng.choice(["random", "duplicates"]))
        if len(ar) >= 2 and ar[-1] > ar[0]:
            log.add("same", "alignment.evaluate", call(al.evaluate, ar, ae), call(al.evaluate, ar + d, ae + d),
                    {"what": "shift", "d": d, "ref": ar.tolist(), "est": ae.tolist()})
        pr, pe = gen.gen_patterns(rng, rng.choice(["random", "random", "duplicates"]))

        def shift_pat(P):
            return [[[(o + d, m) for (o, m) in occ] for occ in pat] for pat in P]
        if pr and pe:
            log.add("same", "pattern.evaluate", call(p.evaluate, pr, pe), call(p.evaluate, shift_pat(pr), shift_pat(pe)),
                    {"what": "shift", "d": d, "ref": pr, "est": pe})
        cri, crl, cei, cel = gen.gen_chord_pair(rng, rng.choice(["random", "random", "duplicates"]))
        log.add("same", "chord.evaluate", call(c.evaluate, cri, crl, cei, cel), call(c.evaluate, cri + d, crl, cei + d, cel),
                {"what": "shift", "d": d, "ref": cri.tolist(), "ref_labels": crl, "est": cei.tolist(), "est_labels": cel})
        # ---- Permute
        pi, pj = list(range(len(nri))), list(range(len(nei)))
        rng.shuffle(pi); rng.shuffle(pj)
        f3 = lambda *a, **k: tr.precision_recall_f1_overlap(*a, **k)[:3]  # noqa
        for kw in ({}, {"offset_ratio": None}, {"strict": True, "onset_tolerance": 0.125}):
            log.add("same", "transcription.precision_recall_f1_overlap", call(f3, nri, nrp, nei, nep, **kw),
                    call(f3, nri[pi], nrp[pi], nei[pj], nep[pj], **kw), {"what": "permute notes", "ref": nri.tolist(), "est": nei.tolist(),
                                                                         "pi": pi, "pj": pj, "kw": str(kw)})
        log.add("same", "transcription.onset_precision_recall_f1", call(tr.onset_precision_recall_f1, nri, nei),
                call(tr.onset_precision_recall_f1, nri[pi], nei[pj]), {"what": "permute notes", "ref": nri.tolist(), "est": nei.tolist()})
        log.add("same", "transcription.offset_precision_recall_f1", call(tr.offset_precision_recall_f1, nri, nei),
                call(tr.offset_precision_recall_f1, nri[pi], nei[pj]), {"what": "permute notes", "ref": nri.tolist(), "est": nei.tolist()})
        fv3 = lambda *a, **k: tv.precision_recall_f1_overlap(*a, **k)[:3]  # noqa
        log.add("close", "transcription_velocity.precision_recall_f1_overlap", call(fv3, nri, nrp, nrv, nei, nep, nev),
                call(fv3, nri[pi], nrp[pi], nrv[pi], nei[pj], nep[pj], nev[pj]), {"what": "permute notes", "ref": nri.tolist(), "est": nei.tolist()})

        def shuf(frames):
            out = []
            for f in frames:
                f = f.copy(); rng.shuffle(f); out.append(f)
            return out
        log.add("same", "multipitch.metrics", call(mp.metrics, mt, mrf, met, mef, window=0.74), call(mp.metrics, mt, shuf(mrf), met, shuf(mef), window=0.74),
                {"what": "permute frequencies inside frames", "ref": [x.tolist() for x in mrf], "est": [x.tolist() for x in mef]})
        # chains of pitches a semitone apart against the same chain a quarter tone lower: every estimate has two candidate
        # references, so only an order-independent (maximum) matching scores all of them - in every listing order
        nfr = rng.randint(1, 3)
        crf, cef = [], []
        for _ in range(nfr):
            u0, ln = rng.randint(-20, 20), rng.randint(2, 4)
            crf.append(np.array([440.0 * 2 ** ((u0 + 2 * i) / 24.0) for i in range(ln)]))
            cef.append(np.array([440.0 * 2 ** ((u0 + 2 * i + rng.choice([-1, -1, 1])) / 24.0) for i in range(ln)]))
        ct = np.arange(nfr) * 0.25
        base = call(mp.metrics, ct, crf, ct, cef, window=0.74)
        for variant in (lambda fr: [f[::-1].copy() for f in fr], shuf):
            log.add("same", "multipitch.metrics", base, call(mp.metrics, ct, variant(crf), ct, variant(cef), window=0.74),
                    {"what": "permute frequencies inside frames", "family": "chains", "ref": [x.tolist() for x in crf], "est": [x.tolist() for x in cef]})
        tref, tw, test = gen.gen_tempo(rng, rng.choice(["random", "random", "single"]))
        for tol in (0.08, 0.0625, 0.125):
            log.add("same", "tempo.detection", call(me.tempo.detection, tref, tw, test, tol=tol), call(me.tempo.detection, tref, tw, test[::-1].copy(), tol=tol),
                    {"what": "swap the two estimated tempi", "ref": tref.tolist(), "weight": tw, "est": test.tolist(), "tol": tol})
        # estimates placed around the tolerance windows of BOTH reference tempi
        e2 = np.array([tref[0] * rng.choice([1.0, 1.05, 0.93, 1.09]), tref[1] * rng.choice([1.0, 1.03, 0.95, 1.1])]) if tref[1] > 0 else test
        log.add("same", "tempo.detection", call(me.tempo.detection, tref, tw, e2), call(me.tempo.detection, tref, tw, e2[::-1].copy()),
                {"what": "swap the two estimated tempi", "ref": tref.tolist(), "weight": tw, "est": e2.tolist()})
        # two NEARBY reference tempi and two estimates exactly equidistant from one of them, only one of which is also
        # inside the other reference's window (any order-dependent crediting of estimates shows here; seeded C08r6-A)
        ta = float(rng.choice([80, 100, 120, 160]))
        tb = ta * rng.choice([1.1, 1.05, 0.9, 0.95])
        td = ta * rng.choice([0.04, 0.05, 0.0625, 0.025])
        for tr3, e3 in ((np.array([ta, tb]), np.array([ta - td, ta + td])), (np.array([tb, ta]), np.array([ta - td, ta + td]))):
            for tol in (0.08, 0.0625):
                log.add("same", "tempo.detection", call(me.tempo.detection, tr3, tw, e3, tol=tol), call(me.tempo.detection, tr3, tw, e3[::-1].copy(), tol=tol),
                        {"what": "swap the two estimated tempi", "family": "equidistant", "ref": tr3.tolist(), "weight": tw, "est": e3.tolist(), "tol": tol})
        if pr and pe and len(pr) > 1:
            q = list(range(len(pr))); rng.shuffle(q)
            prp = [pr[i] for i in q]
            for name in ("standard_FPR", "establishment_FPR", "occurrence_FPR", "three_layer_FPR"):
                fn = getattr(p, name)
                log.add("close", "pattern." + name, call(fn, pr, pe), call(fn, prp, pe), {"what": "permute reference patterns", "ref": pr, "est": pe, "perm": q})
        # ---- Relabel
        ri, rl, ei, el = gen.gen_segment_pair(rng, rng.choice(["random", "random", "duplicates", "disjoint"]))
        if len(ri) and len(ei):
            def bij(labels):
                base = sorted({str(x).lower() for x in labels})
                names = ["zz%02d" % (len(base) - i) for i in range(len(base))]      # reverses the sort order
                if rng.random() < 0.5:
                    names = [rng.choice(["Q", "q"]) + nm for nm in names]
                mp_ = dict(zip(base, names))
                return [mp_[str(x).lower()].upper() if rng.random() < 0.3 else mp_[str(x).lower()] for x in labels]
            fs = rng.choice([0.25, 0.5])
            rl2, el2 = bij(rl), bij(el)
            for name in ("pairwise", "rand_index", "ari", "mutual_information", "nce", "vmeasure"):
                fn = getattr(s, name)
                log.add("close", "segment." + name, call(fn, ri, rl, ei, el, frame_size=fs), call(fn, ri, rl2, ei, el2, frame_size=fs),
                        {"what": "relabel", "ref_labels": rl, "est_labels": el, "new_ref_labels": rl2, "new_est_labels": el2,
                         "ref": ri.tolist(), "est": ei.tolist(), "frame_size": fs})
            log.add("close", "segment.evaluate", call(s.evaluate, ri, rl, ei, el, frame_size=fs), call(s.evaluate, ri, rl2, ei, el2, frame_size=fs),
                    {"what": "relabel", "ref_labels": rl, "est_labels": el, "new_ref_labels": rl2, "new_est_labels": el2,
                     "ref": ri.tolist(), "est": ei.tolist(), "frame_size": fs})
        hri, hrl, hei, hel = gen.gen_hierarchy(rng, "random")

        def hb(lab_hier):
            return [["L%d_%s" % (9 - i, str(x).lower()) for x in labs] for i, labs in enumerate(lab_hier)]
        log.add("close", "hierarchy.lmeasure", call(h.lmeasure, hri, hrl, hei, hel, frame_size=0.25), call(h.lmeasure, hri, hb(hrl), hei, hb(hel), frame_size=0.25),
                {"what": "relabel", "ref_labels": hrl, "est_labels": hel, "ref": [x.tolist() for x in hri], "est": [x.tolist() for x in hei]})
    # the repository's own fixtures: a label bijection on real segmentations, the notes of real transcriptions in another order
    n_real = 0
    for nm, (ri, rl, ei, el) in realdata.pairs(me, "segment", None if thorough else 3):
        def bij(labs, tag):
            names = sorted(set(str(x).lower() for x in labs))
            perm = names[:]
            rng.shuffle(perm)
            mp_ = {a_: "%s%d_%s" % (tag, k_, b_[::-1]) for k_, (a_, b_) in enumerate(zip(names, perm))}
            return [mp_[str(x).lower()] for x in labs]
        lab_only = lambda d: [float(v) for k2, v in d.items() if not (k2.startswith(("Precision@", "Recall@", "F-measure@")) or "deviation" in k2)]  # noqa
        a2 = call(lambda: lab_only(s.evaluate(ri, rl, ei, el)))
        b2 = call(lambda: lab_only(s.evaluate(ri, bij(rl, "r"), ei, bij(el, "e"))))
        n_real += 1
        # (on real-sized tables a bijection reorders the floating-point sums: equal to rounding, not bit for bit)
        log.add("close", "segment.evaluate[labelling]", a2, b2, {"what": "relabel", "fixture": "segment/" + nm})
    for nm, (ri, rp, ei, ep) in realdata.pairs(me, "transcription", None if thorough else 3):
        pr, pe = list(range(len(ri))), list(range(len(ei)))
        rng.shuffle(pr)
        rng.shuffle(pe)
        f3 = lambda *a_, **k_: tr.precision_recall_f1_overlap(*a_, **k_)[:3]  # noqa
        for kw in ({}, {"offset_ratio": None}):
            n_real += 1
            log.add("same", "transcription.precision_recall_f1_overlap", call(f3, ri, rp, ei, ep, **kw), call(f3, ri[pr], rp[pr], ei[pe], ep[pe], **kw),
                    {"what": "permute notes", "fixture": "transcription/" + nm, "kw": str(kw)})
    ev.cov["repository_fixture_transformations"] = n_real
    bad, st = log.judge()
    ev.tlc("Trace_Rel", st, "same / close verdicts on recorded outcome pairs")
    ev.cov["traces_validated_against_impl"] = len(log.events)
    for fn, rel, clause, meta, a, b in bad:
        rep.violation(fn, meta.get("what", "").split(" ")[0] + "/" + clause.split("@")[0], {"failing": clause, "input": meta, "before": a, "after": b})
    for e in log.events:
        ev.case((e["fn"], str(log.meta[e["tid"]][2])[:300]), nontrivial=e["aexc"] == "ok" and any(x["m9"] not in (0, 10 ** 9) for x in e["a"]))
    ev.sample({"fn": log.events[0]["fn"], "input": log.meta[1][2], "before": log.meta[1][3][1], "after": log.meta[1][4][1]})
    ev.cov["rule"] = ("seeded lattice inputs under Shift(d) (dyadic d), Permute and Relabel for the functions of Appendix C; "
                      "distinct = distinct (function, input, transformation); non-trivial = some score strictly between 0 and 1")
    ev.d["assumptions"] = ["transformations are applied by the harness", "hierarchy label names encode their level in the relabelling "
                           "(labels are only compared within a level)", "AOR and first-n scores are not claimed under permutation"]
    code = rep.finish()
    ev.write(violations=len(rep.violations))
    return code


def replay(path):
    v = json.load(open(path))
    print(json.dumps(v, indent=1)[:3000])
    return run("quick", 0)
