"""C17 - hierarchy T-/L-measures equal the triplet-ranking definition.

Hierarchy.tla defines frame-pair depth (deepest level sharing a segment / a label) and precision /
recall as the mean, over query frames that have a reference triple, of the fraction of triples
(q, i, j) in the window that the other hierarchy also ranks strictly in that order (reduced: exactly
one level apart; full: any).  MC_C17 enumerates every pair of small hierarchies (nested or not, 1-2
levels) x windows x reduced/full for T, and labelled hierarchies for L; TLC checks ranges and that a
hierarchy scores 1 against itself whenever it has a triple; the exact rationals are replayed into
hierarchy.tmeasure / lmeasure (and evaluate for a sample)."""
import json
import random

import numpy as np

from .. import tlc
from ..common import Evidence, Reporter, import_mir_eval, Machinery, frac

PROP = "C17"
U = 0.25


def fmeasure(p, r, beta):
    if p == 0 and r == 0:
        return 0.0
    return (1 + beta ** 2) * p * r / (beta ** 2 * p + r)


def hier(h):
    return [np.array(l["ivs"], dtype=float) * U for l in h], [list(l["labs"]) for l in h]


def run(tier, seed):
    me = import_mir_eval()
    rng = random.Random(seed)
    ev = Evidence(PROP, tier, seed)
    rep = Reporter(PROP)
    thorough = tier == "thorough"
    h = me.hierarchy
    total = 0
    for kind in ("T", "T3", "L"):
        cfg = "MC_C17_%s%s" % (kind, "_T" if thorough else "")
        if kind == "T3":
            if thorough:
                continue                       # the thorough T model already has three levels
            cfg, kind = "MC_C17_T3", "T"
        res = tlc.run("MC_C17", cfg=cfg, timeout=3400, heap="8g")
        rows = res["rows"]["ROW"]
        if len(rows) * 2 != res["distinct"]:
            raise Machinery("%s: %d rows for %d states" % (cfg, len(rows), res["distinct"]))
        ev.tlc(cfg, res, "invariants InRange, SelfPerfect on the triplet definition")
        # the frame-size variants of one annotation pair are replayed back to back (a result must not depend on
        # what was computed for the same annotation under another frame size)
        rows.sort(key=lambda r: (json.dumps(r["ref"]), json.dumps(r["est"]), r["w"], r["full"], r["fs"]))
        nfs = len({r["fs"] for r in rows})
        per_pair = len({(r["w"], r["full"], r["fs"]) for r in rows})      # rows of one (reference, estimate) pair are adjacent after the sort
        for k, r in enumerate(rows):
            if kind == "L" and ((k // nfs) + seed) % (3 if thorough else 6):
                continue                       # labelled pairs: every 6th (quick) / 3rd (thorough) row is replayed; TLC checked them all
            if not thorough and cfg == "MC_C17_T3" and ((k // per_pair) + seed) % 3:
                continue                       # the three-level model: every third PAIR of hierarchies (with all its windows / modes) in the quick tier
            ri, rl = hier(r["ref"])
            ei, el = hier(r["est"])
            fs = r["fs"] * U
            beta = rng.choice([0.5, 1.0, 2.0])
            P, R = float(frac(r["out"]["precision"])), float(frac(r["out"]["recall"]))
            want = (P, R, fmeasure(P, R, beta))
            detail = {"ref": r["ref"], "est": r["est"], "unit_seconds": U, "frame_size": fs, "beta": beta}
            try:
                if kind == "T":
                    win = None if r["w"] == 0 else r["w"] * fs
                    detail.update(window=win, transitive=r["full"])
                    got = h.tmeasure(ri, ei, transitive=r["full"], window=win, frame_size=fs, beta=beta)
                    name = "hierarchy.tmeasure"
                else:
                    got = h.lmeasure(ri, rl, ei, el, frame_size=fs, beta=beta)
                    name = "hierarchy.lmeasure"
                got = tuple(float(x) for x in got)
            except Exception as ex:  # noqa
                rep.violation("hierarchy." + ("tmeasure" if kind == "T" else "lmeasure"), "raised-" + type(ex).__name__,
                              dict(detail, message=str(ex)[:200]))
                continue
            total += 1
            if len(got) != 3 or any(abs(g - w) > 1e-9 for g, w in zip(got, want)):
                cls = ("nested" if all(set(map(tuple, a["ivs"])) or True for a in r["ref"]) else "x")
                rep.violation(name, ("full" if r["full"] else "reduced") + ("/window" if r["w"] else "/no-window") + "/value-differs",
                              dict(detail, got=list(got), expected=list(want)))
            ev.case((kind, r["ref"], r["est"], r["w"], r["full"], r["fs"]), nontrivial=r["out"]["defined"] and 0 < R < 1)
            # evaluate() bundles the same numbers (spot check; C03 covers the routing)
            if k % 97 == 0 and kind == "L":
                try:
                    d = h.evaluate(ri, rl, ei, el, frame_size=fs)
                    if abs(d["L-Precision"] - P) > 1e-9 or abs(d["L-Recall"] - R) > 1e-9:
                        rep.violation("hierarchy.evaluate", "L-value-differs", dict(detail, got=[d["L-Precision"], d["L-Recall"]], expected=[P, R]))
                except Exception as ex:  # noqa
                    rep.violation("hierarchy.evaluate", "raised-" + type(ex).__name__, dict(detail, message=str(ex)[:200]))
        ev.sample({"model": cfg, "row": rows[len(rows) // 2]})
    # hierarchy.evaluate as a composition (MC_C17_eval): levels of the estimate starting late / ending early or late are
    # aligned to the reference's span by specification, then the three measures
    for cfg in ("MC_C17_eval", "MC_C17_evalL"):
        cfg = cfg + ("_T" if thorough else "")
        res = tlc.run("MC_C17_eval", cfg=cfg, timeout=3400, heap="8g")
        rows = res["rows"]["ROW"]
        if len(rows) * 2 != res["distinct"]:
            raise Machinery("%s: %d rows for %d states" % (cfg, len(rows), res["distinct"]))
        ev.tlc(cfg, res, "alignment (AdjustSpec per level) composed with the triplet definition; invariants Aligned, InRange")
        for k, r in enumerate(rows):
            if not thorough and (k + seed) % 5:
                continue
            ri, rl = hier(r["ref"])
            ei, el = hier(r["est"])
            fs = r["fs"] * U
            kw = {"frame_size": fs}
            if r["w"]:
                kw["window"] = r["w"] * fs
            o = r["out"]
            vals = {k2: float(frac(o[k2])) for k2 in ("tpr", "trr", "tpf", "trf", "lp", "lr")}
            want = [vals["tpr"], vals["trr"], fmeasure(vals["tpr"], vals["trr"], 1.0), vals["tpf"], vals["trf"], fmeasure(vals["tpf"], vals["trf"], 1.0),
                    vals["lp"], vals["lr"], fmeasure(vals["lp"], vals["lr"], 1.0)]
            detail = {"ref": r["ref"], "est": r["est"], "unit_seconds": U, "kwargs": kw, "aligned_est": o["estA"]}
            total += 1
            # stage by stage: every aligned level of the composition against util.adjust_intervals on that level
            try:
                t_end = max(float(x.max()) for x in ri)
                bad_stage = None
                for side, ivs_, labs_, tmax, want_levels in (("ref", ri, rl, None, o["refA"]), ("est", ei, el, t_end, o["estA"])):
                    for li, (iv_, lb_) in enumerate(zip(ivs_, labs_)):
                        gi, gl = me.util.adjust_intervals(iv_, labels=list(lb_), t_min=0.0, t_max=tmax)
                        wl = want_levels[li]
                        if [[int(round(a / U)), int(round(b / U))] for a, b in gi.tolist()] != [list(x) for x in wl["ivs"]] or list(gl) != list(wl["labs"]):
                            bad_stage = ("Align(%s level %d)" % (side, li + 1), {"got": [gi.tolist(), list(gl)], "expected": wl})
                if bad_stage:
                    rep.violation("hierarchy.evaluate", "stage/aligned-level-differs", dict(detail, stage=bad_stage[0], **bad_stage[1]))
                    continue
            except Exception as ex:  # noqa
                rep.violation("hierarchy.evaluate", "stage/raised-" + type(ex).__name__, dict(detail, message=str(ex)[:200]))
                continue
            try:
                d = h.evaluate(ri, rl, ei, el, **kw)
                got = [float(x) for x in d.values()]
            except Exception as ex:  # noqa
                rep.violation("hierarchy.evaluate", "raised-" + type(ex).__name__, dict(detail, message=str(ex)[:200]))
                continue
            bad = [i for i, (g, w_) in enumerate(zip(got, want)) if abs(g - w_) > 1e-9]
            if bad or len(got) != 9:
                rep.violation("hierarchy.evaluate", "aligned/value-differs@" + list(d.keys())[bad[0]] if bad else "arity",
                              dict(detail, got=got, expected=want))
            ev.case(("eval", r["ref"], r["est"], r["w"], r["fs"]), nontrivial=r["est"] != r["ref"] and o["estA"] != r["est"])
        ev.sample({"model": cfg, "row": rows[len(rows) // 2]})
    ev.cov["traces_validated_against_impl"] = total
    ev.cov["rule"] = ("every pair of hierarchies of the models x windows x reduced/full (T) and labelled pairs (L; every third row in "
                      "the quick tier), random beta; compared to 1e-9 with the exact rationals of the triplet definition; hierarchy.evaluate as a "
                      "composition with its aligned levels (MC_C17_eval); "
                      "distinct = distinct (hierarchies, window, mode, frame size); non-trivial = defined and recall strictly "
                      "between 0 and 1")
    ev.cov["exhaustive"] = True
    ev.d["assumptions"] = ["time unit 0.25 s; frame_size a multiple of it; segment boundaries on the frame grid or between frames",
                           "the window is the code's half-open [q-w, q+w) in frames (named deviation)"]
    code = rep.finish()
    ev.write(violations=len(rep.violations))
    return code


def replay(path):
    v = json.load(open(path))
    print(json.dumps(v, indent=1)[:3000])
    return run("quick", 0)
