"""C13 - interval pre-processing preserves the annotation it re-expresses.

TLC (MC_C13, six generators) enumerates every input of the bounded domain and checks that the
constructive reading of the documentation satisfies the semantic specification; every generated
input is executed on the real functions and the RESULT is sent back to TLC, where Trace_C13 gives a
total verdict with the failing clause (positive durations, begins at t_min, ends at t_max, label of
every instant preserved, duration conserved, later interval at a shared boundary, ...).  Larger
random annotations and the adjust/merge calls recorded inside segment/chord/hierarchy.evaluate are
validated the same way."""
import json
import random

import numpy as np

from .. import tlc, trace
from ..common import Evidence, Reporter, import_mir_eval, Machinery
from ..recorder import Recorder

PROP = "C13"
U = 0.25
FN = {"noisy": "util.intervals_to_boundaries/boundaries_to_intervals", "adjust": "util.adjust_intervals", "merge": "util.merge_labeled_intervals",
      "interp": "util.interpolate_intervals", "samples": "util.intervals_to_samples",
      "bounds": "util.intervals_to_boundaries/boundaries_to_intervals", "events": "util.adjust_events"}


class OffLattice(Exception):
    pass


FINE = 2.0 ** -30     # second lattice: boundaries a few 2^-30 s (about 1e-9 s) apart - near-coincident, still exact doubles


def lat(x, U=U):
    k = np.asarray(x, dtype=float) / U
    r = np.round(k)
    if k.size and (not np.all(np.isfinite(k)) or np.max(np.abs(k - r)) > 1e-9):
        raise OffLattice(repr(np.asarray(x).tolist()))
    return r.astype(int).tolist()


def execute(me, kind, inp, unit=U, int_dtype=False):
    """run the real function on a (lattice) input; return res dict for Trace_C13.
    The caller-owned arrays are created once and the function is called on them several times (an
    identical call and, for adjust, a call with another crop point first): an implementation that
    writes into its input shows up as a wrong result of the final call."""
    u = me.util
    U = unit

    def arr(ivs):
        a = np.array(ivs, dtype=float).reshape(-1, 2) * U
        return a.astype(int) if int_dtype else a

    def tval(t):
        return None if t == -1 else t * U

    def lat(x):
        return globals()["lat"](x, U)
    try:
        if kind == "adjust":
            a, labs = arr(inp["ivs"]), list(inp["labs"])
            kw = dict(start_label=inp.get("sl", "S"), end_label=inp.get("el", "E"))
            mid = (inp["ivs"][0][0] + inp["ivs"][0][1]) / 2.0 * U
            for tm in (mid, tval(inp["tmin"])):
                try:
                    u.adjust_intervals(a, labs, t_min=tm, t_max=tval(inp["tmax"]), **kw)
                except Exception:
                    pass
            oi, ol = u.adjust_intervals(a, labs, t_min=tval(inp["tmin"]), t_max=tval(inp["tmax"]), **kw)
            return {"exc": "", "ivs": lat(oi), "labs": [str(x) for x in ol]}
        if kind == "merge":
            xa, ya, xl0, yl0 = arr(inp["xi"]), arr(inp["yi"]), list(inp["xl"]), list(inp["yl"])
            u.merge_labeled_intervals(xa, xl0, ya, yl0)
            oi, xl, yl = u.merge_labeled_intervals(xa, xl0, ya, yl0)
            return {"exc": "", "ivs": lat(oi), "xl": [str(x) for x in xl], "yl": [str(x) for x in yl]}
        if kind == "interp":
            a, l0, p = arr(inp["ivs"]), list(inp["labs"]), np.array(inp["pts"], dtype=float) * U
            u.interpolate_intervals(a, l0, p, fill_value="F")
            labs = u.interpolate_intervals(a, l0, p, fill_value="F")
            return {"exc": "", "labs": [str(x) for x in labs]}
        if kind == "samples":
            t, labs = u.intervals_to_samples(arr(inp["ivs"]), list(inp["labs"]), offset=inp["offset"] * U,
                                             sample_size=inp["size"] * U, fill_value="F")
            return {"exc": "", "times": lat(t), "labs": [str(x) for x in labs]}
        if kind == "bounds":
            b = u.intervals_to_boundaries(arr(inp["ivs"]))
            back = u.boundaries_to_intervals(b)
            return {"exc": "", "b": lat(b), "back": lat(back)}
        if kind == "events":
            e, _ = u.adjust_events(np.array(inp["evs"], dtype=float) * U, None, t_min=tval(inp["tmin"]),
                                   t_max=tval(inp["tmax"]))
            # the same call with labels: the events must be the same and the labels travel with them
            elabs = ["e%d" % (k + 1) for k in range(len(inp["evs"]))]
            e2, l2 = u.adjust_events(np.array(inp["evs"], dtype=float) * U, elabs, t_min=tval(inp["tmin"]), t_max=tval(inp["tmax"]))
            if lat(e2) != lat(e):
                return {"exc": "events-depend-on-labels", "msg": "%r vs %r" % (lat(e), lat(e2))}
            return {"exc": "", "evs": lat(e), "labs": list(l2)}
    except OffLattice as ex:
        return {"exc": "OffLatticeValue", "msg": str(ex)[:200]}
    except Exception as ex:  # noqa
        return {"exc": type(ex).__name__, "msg": str(ex)[:200]}
    raise Machinery("unknown kind " + kind)


def pad(res, kind):
    """TLC records need every field it may touch"""
    base = {"ivs": [], "labs": [], "xl": [], "yl": [], "times": [], "b": [], "back": [], "evs": [], "exc": "", "nb": 0, "incr": True, "err9": 0}
    base.update(res)
    base.pop("msg", None)
    return base


def fine_inputs(rng, n):
    """annotations whose boundaries nearly coincide (a few 2^-24 s apart): unit FINE"""
    out = []
    Q = 2 ** 28        # 0.25 s in FINE units (values stay below 2^31: at most 7 x 0.25 s)
    for _ in range(n):
        k = rng.randint(2, 5)
        base = sorted(rng.sample(range(0, 8), k + 1))
        xb = [b * Q + rng.choice([0, 0, 1, 2, 5]) for b in base]
        xb[0] = base[0] * Q
        xb[-1] = base[-1] * Q
        # second annotation: same span, boundaries at the same places +- a few units
        yb = sorted(set([xb[0]] + [b + rng.choice([-4, -2, -1, 1, 2, 3, 9]) for b in xb[1:-1] if rng.random() < 0.8] + [xb[-1]]))
        xi = [[xb[i], xb[i + 1]] for i in range(len(xb) - 1)]
        yi = [[yb[i], yb[i + 1]] for i in range(len(yb) - 1)]
        xl = [rng.choice("abc") for _ in xi]
        yl = [rng.choice("xyz") for _ in yi]
        out.append(("merge", {"xi": xi, "xl": xl, "yi": yi, "yl": yl}))
        allb = sorted(set(xb + yb))
        tmin = rng.choice([-1] + [b + d for b in allb[:2] for d in (-1, 0, 1) if b + d >= 0])
        tmax = rng.choice([-1] + [b + d for b in allb[-2:] for d in (-1, 0, 1)])
        lo = xb[0] if tmin == -1 else tmin
        hi = xb[-1] if tmax == -1 else tmax
        if lo < hi and any(min(e, hi) > max(s, lo) for s, e in xi):
            out.append(("adjust", {"ivs": xi, "labs": xl, "tmin": tmin, "tmax": tmax}))
        pts = sorted(rng.choice(allb) + rng.choice([-1, 0, 0, 1]) for _ in range(4))
        out.append(("interp", {"ivs": xi, "labs": xl, "pts": [p for p in pts if p >= 0]}))
    return out


def noisy_bounds(me, rng):
    """a contiguous segmentation whose shared edges differ by float noise (end_i = start_i + duration_i): the documented
    5-decimal rounding must make intervals_to_boundaries / boundaries_to_intervals mutually inverse all the same"""
    n = rng.randint(2, 7)
    d = [rng.choice([0.1, 0.2, 0.3, 0.7, 1.1, 0.25]) for _ in range(n)]
    starts = [0.0]
    for x in d[:-1]:
        starts.append(starts[-1] + x)
    grid = [round(v, 6) for v in starts]                      # starts taken from a grid, ends accumulated
    iv = np.array([[grid[i], starts[i] + d[i]] for i in range(n)])
    iv[:-1, 1] = [starts[i] + d[i] for i in range(n - 1)]
    res = {"exc": "", "nb": 0, "incr": False, "err9": 0}
    try:
        b = me.util.intervals_to_boundaries(iv)
        res["nb"] = int(len(b))
        res["incr"] = bool(np.all(np.diff(b) > 0))
        back = me.util.boundaries_to_intervals(b)
        res["err9"] = int(min(2 * 10 ** 9, round(float(np.max(np.abs(back - iv))) * 1e9))) if back.shape == iv.shape else 2 * 10 ** 9
    except Exception as ex:  # noqa
        res["exc"] = type(ex).__name__
    return {"n": n}, res, iv


def random_inputs(rng, n):
    out = []
    for _ in range(n):
        k = rng.randint(2, 9)
        pts = sorted(rng.sample(range(0, 40), 2 * k))
        contiguous = rng.random() < 0.5
        if contiguous:
            b = sorted(set(pts))[:k + 1]
            ivs = [[b[i], b[i + 1]] for i in range(len(b) - 1)]
        else:
            ivs = [[pts[2 * i], pts[2 * i + 1]] for i in range(k)]
            for i in range(k - 1):            # make some neighbours touch
                if rng.random() < 0.4:
                    ivs[i][1] = ivs[i + 1][0]
        labs = [rng.choice("abc") for _ in ivs]
        bs = sorted({x for iv in ivs for x in iv})
        cand = [-1] + bs + [bs[0] - 1 if bs[0] > 0 else 0, bs[-1] + 2] + [rng.randint(0, 41) for _ in range(2)]
        for _ in range(3):
            tmin, tmax = rng.choice(cand), rng.choice(cand)
            lo = min(bs) if tmin == -1 else tmin
            hi = max(bs) if tmax == -1 else tmax
            if lo < hi and any(min(e, hi) > max(s, lo) for s, e in ivs):
                out.append(("adjust", {"ivs": ivs, "labs": labs, "tmin": tmin, "tmax": tmax}))
        if contiguous and len(ivs) >= 2:
            cut = sorted(set(rng.sample(range(ivs[0][0] + 1, ivs[-1][1]), min(3, ivs[-1][1] - ivs[0][0] - 1)))) \
                if ivs[-1][1] - ivs[0][0] > 1 else []
            yb = [ivs[0][0]] + cut + [ivs[-1][1]]
            yi = [[yb[i], yb[i + 1]] for i in range(len(yb) - 1)]
            out.append(("merge", {"xi": ivs, "xl": labs, "yi": yi, "yl": [rng.choice("xyz") for _ in yi]}))
            out.append(("bounds", {"ivs": ivs}))
        p = sorted(rng.randint(0, 42) for _ in range(rng.randint(0, 8)))
        out.append(("interp", {"ivs": ivs, "labs": labs, "pts": p}))
        out.append(("samples", {"ivs": ivs, "labs": labs, "offset": rng.choice([0, 1]), "size": rng.choice([1, 2, 4])}))
    return out


def recorded_inner_calls(me, rng, n):
    """adjust_intervals / merge_labeled_intervals as called INSIDE the evaluate() pipelines"""
    events = []
    rec = Recorder([me.util.adjust_intervals, me.util.merge_labeled_intervals])

    def seg(lo, hi, labels):
        k = rng.randint(1, 5)
        inner = sorted(rng.sample(range(lo + 1, hi), min(k, hi - lo - 1)))
        b = [lo] + inner + [hi]
        return (np.array([[b[i], b[i + 1]] for i in range(len(b) - 1)], dtype=float) * U,
                [rng.choice(labels) for _ in range(len(b) - 1)])
    with rec:
        for _ in range(n):
            hi = rng.randint(8, 30)
            ri, rl = seg(0, hi, "abc")
            ei, el = seg(rng.choice([0, 0, 1, 2]), hi + rng.choice([-3, 0, 0, 4]), "abc")
            try:
                me.segment.evaluate(ri, rl, ei, el, frame_size=0.25)
            except Exception:
                pass
            ri, rl = seg(rng.choice([0, 2]), hi, ["C", "G:min", "N", "A:7"])
            ei, el = seg(rng.choice([0, 1, 2, 3]), hi + rng.choice([-2, 0, 3]), ["C", "G:min", "N", "F:maj7"])
            try:
                me.chord.evaluate(ri, rl, ei, el)
            except Exception:
                pass
    tid = 0
    for e in rec.events:
        a = e["args"]
        try:
            if e["fn"] == "util.adjust_intervals" and a.get("labels") is not None:
                ivs = lat(a["intervals"])
                if not ivs:
                    continue
                tmin = -1 if a["t_min"] is None else lat([a["t_min"]])[0]
                tmax = -1 if a["t_max"] is None else lat([a["t_max"]])[0]
                bs = [x for iv in ivs for x in iv]
                lo = min(bs) if tmin == -1 else tmin
                hi = max(bs) if tmax == -1 else tmax
                if not (lo < hi and any(min(en, hi) > max(s, lo) for s, en in ivs)):
                    continue   # outside the domain of the specification (range disjoint from the annotation)
                inp = {"ivs": ivs, "labs": [str(x) for x in a["labels"]], "tmin": tmin, "tmax": tmax,
                       "sl": str(a["start_label"]), "el": str(a["end_label"])}
                if "ret" in e:
                    res = {"exc": "", "ivs": lat(e["ret"][0]), "labs": [str(x) for x in e["ret"][1]]}
                else:
                    res = {"exc": e["exc"]}
                events.append(("adjust", inp, res))
            elif e["fn"] == "util.merge_labeled_intervals" and "ret" in e:
                inp = {"xi": lat(a["x_intervals"]), "xl": [str(x) for x in a["x_labels"]],
                       "yi": lat(a["y_intervals"]), "yl": [str(x) for x in a["y_labels"]]}
                r = e["ret"]
                events.append(("merge", inp, {"exc": "", "ivs": lat(r[0]), "xl": [str(x) for x in r[1]],
                                              "yl": [str(x) for x in r[2]]}))
        except OffLattice:
            continue
    return events


def to_event(tid, kind, inp, res):
    full = {"ivs": [], "labs": [], "tmin": -1, "tmax": -1, "sl": "S", "el": "E", "xi": [], "xl": [], "yi": [],
            "yl": [], "pts": [], "offset": 0, "size": 1, "evs": [], "n": 0, "elabs": []}
    full.update(inp)
    if kind == "events":
        full["elabs"] = ["e%d" % (k + 1) for k in range(len(full["evs"]))]
    return {"tid": tid, "kind": kind, "inp": full, "res": pad(res, kind)}


def run(tier, seed):
    me = import_mir_eval()
    rng = random.Random(seed)
    ev = Evidence(PROP, tier, seed)
    rep = Reporter(PROP)
    thorough = tier == "thorough"
    events, meta, units, noisy = [], {}, {}, {}
    for kind in ("adjust", "merge", "interp", "samples", "bounds", "events"):
        cfg = "MC_C13_%s%s" % (kind, "_T" if thorough else "")
        res = tlc.run("MC_C13", cfg=cfg, timeout=3400, heap="8g")
        rows = res["rows"]["ROW"]
        if len(rows) * 2 != res["distinct"]:
            raise Machinery("%s: %d rows for %d states" % (cfg, len(rows), res["distinct"]))
        ev.tlc(cfg, res, "generator; invariant SpecAgrees (constructive reading satisfies the semantic verdict)")
        for r in rows:
            tid = len(events) + 1
            events.append(to_event(tid, kind, r["inp"], execute(me, kind, r["inp"])))
            meta[tid] = "model"
        ev.sample({"model": cfg, "input": rows[len(rows) // 2]["inp"], "impl_result": events[-1]["res"]})
    n_model = len(events)
    for kind, inp in random_inputs(rng, 4000 if thorough else 400):
        tid = len(events) + 1
        events.append(to_event(tid, kind, inp, execute(me, kind, inp)))
        meta[tid] = "random"
        # integer-dtype interval array with a crop point that is not an integer number of seconds
        if kind == "adjust" and all(x % 4 == 0 for iv in inp["ivs"] for x in iv) and rng.random() < 0.5:
            tid = len(events) + 1
            events.append(to_event(tid, kind, inp, execute(me, kind, inp, int_dtype=True)))
            meta[tid] = "random-int-dtype"
    for kind, inp in fine_inputs(rng, 2000 if thorough else 300):
        tid = len(events) + 1
        events.append(to_event(tid, kind, inp, execute(me, kind, inp, unit=FINE)))
        meta[tid] = "fine-lattice"
        units[tid] = FINE
    for _ in range(600 if thorough else 120):
        inp, res, iv = noisy_bounds(me, rng)
        tid = len(events) + 1
        e = to_event(tid, "noisy", {}, {"exc": res["exc"]})
        e["inp"]["n"] = inp["n"]
        e["res"].update(nb=res["nb"], incr=res["incr"], err9=res["err9"])
        events.append(e)
        meta[tid] = "float-noise-boundaries"
        units[tid] = 1.0
        noisy[tid] = iv.tolist()
    for kind, inp, res in recorded_inner_calls(me, rng, 1500 if thorough else 150):
        tid = len(events) + 1
        events.append(to_event(tid, kind, inp, res))
        meta[tid] = "recorded-in-evaluate"
    rejects, st = trace.validate_par("Trace_C13", events)
    ev.tlc("Trace_C13", st, "verdict on every implementation result")
    ev.cov["traces_validated_against_impl"] = len(events)
    ev.cov["events_by_source"] = {"model": n_model, "random+recorded": len(events) - n_model}
    byid = {e["tid"]: e for e in events}
    for rj in rejects:
        e = byid[rj["tid"]]
        rep.violation(FN[e["kind"]], rj["class"] + "/" + rj["clause"],
                      {"kind": e["kind"], "inp": e["inp"], "impl_result": e["res"], "source": meta[rj["tid"]], "intervals": noisy.get(rj["tid"]),
                       "unit_seconds": units.get(rj["tid"], U), "int_dtype": meta[rj["tid"]] == "random-int-dtype"})
    for e in events:
        i = e["inp"]
        ev.case((e["kind"], i), nontrivial=(len(i["ivs"]) + len(i["xi"]) + len(i["evs"]) >= 2))
    ev.cov["rule"] = ("every input of the six MC_C13 generators (all crop-point/boundary coincidences) plus seeded random "
                      "larger annotations plus adjust/merge calls recorded inside segment/chord.evaluate; each executed "
                      "on the real function and judged by Trace_C13. distinct = distinct (function,input); non-trivial = "
                      "at least two intervals/events involved")
    ev.cov["exhaustive"] = True
    ev.d["assumptions"] = ["time unit 0.25 s: all values exact in float64 and float32, np.round(.,5) is the identity",
                           "inputs are time-ordered and disjoint (the property's premise); the crop range overlaps the "
                           "annotation in positive length",
                           "a crop point inside an internal gap: the in-range part of the gap takes the fill label "
                           "(documented 'range exceeds the span of the data'; see DESIGN.md)"]
    code = rep.finish()
    ev.write(violations=len(rep.violations))
    return code


def replay(path):
    me = import_mir_eval()
    v = json.load(open(path))
    d = v["detail"]
    res = execute(me, d["kind"], d["inp"], unit=d.get("unit_seconds", U), int_dtype=d.get("int_dtype", False))
    evs = [to_event(1, d["kind"], d["inp"], res)]
    rejects, _ = trace.validate_par("Trace_C13", evs, workers=1)
    print("input:", json.dumps(d["inp"]), "\nresult now:", json.dumps(res))
    if rejects:
        print("VIOLATION property=C13 replay=%s (%s)" % (path, rejects[0]["clause"]))
        return 1
    print("HOLDS")
    return 0
