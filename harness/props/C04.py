"""C04 - event, frame and note metrics equal their published definitions.

Metrics.tla holds the definitions on integer lattices with exact rational results: hit-based P/R/F
from the size of a maximum matching (onset, beat F, boundary detection with trim, notes with
onset/pitch/offset criteria and the onset-only / offset-only variants), boundary deviations
(medians), tempo P-score and hit flags (whole lattice of tempo pairs x tolerances), alignment error
statistics, percentage correct and both PCS variants, melody voicing recall / false alarm / raw pitch
/ raw chroma / overall accuracy with continuous voicing; MC_Key covers the whole key domain.  MC_C04
enumerates each domain, checks ranges and nestings on the definitions and exports the rationals; every
row is replayed into the public functions (1e-9).  Threshold ties that the property exempts are
flagged by the spec and skipped."""
import json
import sys
import math
import random

import numpy as np

from .. import tlc
from ..common import Evidence, Reporter, import_mir_eval, Machinery, frac

PROP = "C04"


def fr(x):
    return float(frac(x))


def beta_of(b2):
    return {(1, 4): 0.5, (1, 1): 1.0, (4, 1): 2.0}[tuple(b2)]


def notes_arrays(notes):
    iv = np.array([[n["on"] / 16.0, (n["on"] + n["dur"]) / 16.0] for n in notes], dtype=float).reshape(-1, 2)
    p = np.array([440.0 * 2.0 ** (n["p"] / 1200.0) for n in notes], dtype=float)
    return iv, p


def close(got, want, tol=1e-9):
    got = [float(x) for x in (got if isinstance(got, (tuple, list, np.ndarray)) else [got])]
    return len(got) == len(want) and all(abs(g - w) <= tol for g, w in zip(got, want)), got


class HoldTracer:
    """Observes the local array `frequencies_held` of melody.resample_melody_series at its return (sys.monitoring PY_RETURN
    on that code object only) - the intermediate "hold" state of the specification - without touching the code.  If a
    refactoring renames the local, `available` stays False and nothing is claimed."""
    TOOL = 3

    def __init__(self, me):
        self.code = me.melody.resample_melody_series.__code__
        self.available = "frequencies_held" in self.code.co_varnames
        self.held = []

    def _ret(self, code, off, val):
        if code is self.code:
            h = sys._getframe(1).f_locals.get("frequencies_held")
            if h is not None:
                self.held.append([float(x) for x in np.asarray(h).ravel()])

    def __enter__(self):
        mon = sys.monitoring
        if mon.get_tool(self.TOOL) is not None:
            mon.free_tool_id(self.TOOL)
        mon.use_tool_id(self.TOOL, "mir_eval_verif_hold")
        mon.register_callback(self.TOOL, mon.events.PY_RETURN, self._ret)
        mon.set_local_events(self.TOOL, self.code, mon.events.PY_RETURN)
        return self

    def __exit__(self, *a):
        mon = sys.monitoring
        mon.set_local_events(self.TOOL, self.code, 0)
        mon.free_tool_id(self.TOOL)
        return False


def run(tier, seed):
    me = import_mir_eval()
    rng = random.Random(seed)
    ev = Evidence(PROP, tier, seed)
    rep = Reporter(PROP)
    thorough = tier == "thorough"
    U = 0.125
    total = skipped = 0

    def check(fn, got_f, want, detail, cls="value-differs"):
        nonlocal total
        total += 1
        try:
            ok, got = close(got_f(), want)
        except Exception as ex:  # noqa
            rep.violation(fn, "raised-" + type(ex).__name__, dict(detail, message=str(ex)[:200]))
            return
        if not ok:
            rep.violation(fn, cls, dict(detail, got=got, expected=want))

    for kind in ("onset", "detect", "notes", "aor", "tempo", "align", "melody"):
        cfg = "MC_C04_%s%s" % (kind, "_T" if thorough else "")
        res = tlc.run("MC_C04", cfg=cfg, timeout=3400, heap="8g")
        rows = res["rows"]["ROW"]
        if len(rows) * 2 != res["distinct"]:
            raise Machinery("%s: %d rows for %d states" % (cfg, len(rows), res["distinct"]))
        ev.tlc(cfg, res, "definitional model; invariant Sane (ranges, nestings)")
        step = 1 if thorough or kind in ("tempo", "detect") else (3 if kind in ("notes", "melody", "aor") else 2)
        for k, r in enumerate(rows):
            if (k + seed) % step:
                continue
            i, o = r["inp"], r["out"]
            if kind == "onset":
                ref, est, w = np.array(i["ref"], dtype=float) * U, np.array(i["est"], dtype=float) * U, i["w"] * U
                p, rc, f = fr(o["prf"]["p"]), fr(o["prf"]["r"]), fr(o["prf"]["f"])
                d = {"ref": ref.tolist(), "est": est.tolist(), "window": w}
                check("onset.f_measure", lambda: me.onset.f_measure(ref, est, window=w), [f, p, rc], d)
                check("beat.f_measure", lambda: me.beat.f_measure(ref + 6.0, est + 6.0, f_measure_threshold=w), [f], d)
                if k % 7 == 0:
                    check("onset.evaluate", lambda: list(me.onset.evaluate(ref, est, window=w).values()), [f, p, rc], d)
            elif kind == "detect":
                ri, ei = np.array(i["ref"], dtype=float) * U, np.array(i["est"], dtype=float) * U
                w, beta = i["w"] * U, beta_of(i["b2"])
                d = {"ref": ri.tolist(), "est": ei.tolist(), "window": w, "trim": i["trim"], "beta": beta}
                check("segment.detection", lambda: me.segment.detection(ri, ei, window=w, beta=beta, trim=i["trim"]),
                      [fr(o["prf"]["p"]), fr(o["prf"]["r"]), fr(o["prf"]["f"])], d)
                if o["hasdev"]:
                    check("segment.deviation", lambda: me.segment.deviation(ri, ei, trim=i["trim"]), [fr(o["dev"][0]) * U, fr(o["dev"][1]) * U], d)
            elif kind == "notes":
                ri, rp = notes_arrays(i["ref"])
                ei, epp = notes_arrays(i["est"])
                beta = beta_of(i["b2"])
                ratio = None if i["ratio"] == [0, 0] else fr(i["ratio"])
                kw = dict(onset_tolerance=fr(i["ot"]) / 16.0, strict=i["strict"], beta=beta)
                d = {"ref": i["ref"], "est": i["est"], "kw": dict(kw, offset_ratio=ratio)}
                tr = me.transcription
                check("transcription.precision_recall_f1_overlap",
                      lambda: tr.precision_recall_f1_overlap(ri, rp, ei, epp, offset_ratio=ratio, offset_min_tolerance=1 / 16.0, pitch_tolerance=50.0, **kw)[:3],
                      [fr(o["full"]["p"]), fr(o["full"]["r"]), fr(o["full"]["f"])], d)
                check("transcription.onset_precision_recall_f1", lambda: tr.onset_precision_recall_f1(ri, ei, **kw),
                      [fr(o["onset"]["p"]), fr(o["onset"]["r"]), fr(o["onset"]["f"])], d)
                if ratio is not None:
                    check("transcription.offset_precision_recall_f1",
                          lambda: tr.offset_precision_recall_f1(ri, ei, offset_ratio=ratio, offset_min_tolerance=1 / 16.0, strict=i["strict"], beta=beta),
                          [fr(o["offset"]["p"]), fr(o["offset"]["r"]), fr(o["offset"]["f"])], d)
            elif kind == "aor":
                ri, _ = notes_arrays(i["ref"])
                ei, _ = notes_arrays(i["est"])
                mm = [(a - 1, b - 1) for a, b in i["m"]]
                check("transcription.average_overlap_ratio", lambda: me.transcription.average_overlap_ratio(ri, ei, mm), [fr(o["aor"])],
                      {"ref": i["ref"], "est": i["est"], "matching": mm})
            elif kind == "tempo":
                if o["tie"]:
                    skipped += 1
                    continue
                ref, est = np.array([i["r1"], i["r2"]], dtype=float), np.array([i["e1"], i["e2"]], dtype=float)
                wgt, tol = fr(i["wgt"]), fr(i["tol"])
                d = {"ref": ref.tolist(), "est": est.tolist(), "weight": wgt, "tol": tol}
                check("tempo.detection", lambda: me.tempo.detection(ref, wgt, est, tol=tol), [fr(o["p"]), float(o["one"]), float(o["both"])], d)
                if i["tol"] == [2, 25]:       # 0.08 is the documented default: leave it unspecified in the call
                    check("tempo.detection", lambda: me.tempo.detection(ref, wgt, est), [fr(o["p"]), float(o["one"]), float(o["both"])], dict(d, tol="default"))
                    check("tempo.evaluate", lambda: list(me.tempo.evaluate(ref, wgt, est).values()), [fr(o["p"]), float(o["one"]), float(o["both"])], d)
            elif kind == "align":
                ref, est = np.array(i["ref"], dtype=float) * U, np.array(i["est"], dtype=float) * U
                w = i["w"] * U
                d = {"ref": ref.tolist(), "est": est.tolist(), "window": w, "duration": i["dur"] * U}
                al = me.alignment
                check("alignment.absolute_error", lambda: al.absolute_error(ref, est), [fr(o["median"]) * U, fr(o["mean"]) * U], d)
                check("alignment.percentage_correct", lambda: al.percentage_correct(ref, est, window=w), [fr(o["pc"])], d)
                # perceptual (karaoke) score: mean of a skew-normal density of the signed offsets (parameters from the docstring),
                # evaluated here from the spec's offsets with erf/exp
                def skew(x, a=1.12244251, loc=-0.22270315, scale=0.29779424):
                    z = (x - loc) / scale
                    return 2.0 / scale * math.exp(-0.5 * z * z) / math.sqrt(2 * math.pi) * 0.5 * (1.0 + math.erf(a * z / math.sqrt(2.0)))
                check("alignment.karaoke_perceptual_metric", lambda: al.karaoke_perceptual_metric(ref, est),
                      [sum(skew(x * U) for x in o["offsets"]) / (1.6857 * len(o["offsets"]))], d)
                if o["haspcs"]:
                    kw = {} if i["dur"] == 0 else {"duration": i["dur"] * U}
                    check("alignment.percentage_correct_segments", lambda: al.percentage_correct_segments(ref, est, **kw), [fr(o["pcs"])], d)
            elif kind == "melody":
                rv = np.array([fr(x) for x in i["rv"]], dtype=float)
                evv = np.array([fr(x) for x in i["ev"]], dtype=float)
                rc, ec = np.array(i["rc"], dtype=float), np.array(i["ec"], dtype=float)
                tol = i["tol"]
                d = {"ref_voicing": rv.tolist(), "est_voicing": evv.tolist(), "ref_cent": rc.tolist(), "est_cent": ec.tolist(), "cent_tolerance": tol}
                m = me.melody
                check("melody.voicing_measures", lambda: m.voicing_measures(rv, evv), [fr(o["recall"]), fr(o["fa"])], d)
                kw = {} if tol == 50 else {"cent_tolerance": tol}
                check("melody.raw_pitch_accuracy", lambda: m.raw_pitch_accuracy(rv, rc, evv, ec, **kw), [fr(o["rpa"])], d)
                check("melody.raw_chroma_accuracy", lambda: m.raw_chroma_accuracy(rv, rc, evv, ec, **kw), [fr(o["rca"])], d)
                check("melody.overall_accuracy", lambda: m.overall_accuracy(rv, rc, evv, ec, **kw), [fr(o["oa"])], d)
            ev.case((kind, i), nontrivial=True)
        ev.sample({"model": cfg, "row": rows[len(rows) // 2]})
    # beat tracking: P-score, Goto, Cemgil (spec gives the combinatorial terms, exp() is evaluated here)
    res = tlc.run("MC_C04_beat", cfg="MC_C04_beat_T" if thorough else "MC_C04_beat", timeout=3400, heap="8g")
    brow = res["rows"]["ROW"]
    if len(brow) * 2 != res["distinct"]:
        raise Machinery("MC_C04_beat: %d rows for %d states" % (len(brow), res["distinct"]))
    ev.tlc("MC_C04_beat", res, "Beat.tla (P-score, Goto, Cemgil terms, continuity, information gain); invariants SelfPerfect, ContNested")
    res = tlc.run("MC_C04_beat", cfg="MC_C04_beatj", timeout=3400, heap="8g")
    jrow = res["rows"]["ROW"]
    if len(jrow) * 2 != res["distinct"]:
        raise Machinery("MC_C04_beatj: %d rows for %d states" % (len(jrow), res["distinct"]))
    ev.tlc("MC_C04_beatj", res, "jittered copies of a regular reference")
    for j_ in jrow:
        j_["_all"] = True
    brow = brow + jrow
    BU = 0.25

    for k, r in enumerate(brow):
        if not thorough and (k + seed) % 4 and not r.get("_all"):
            continue
        ref, est = np.array(r["ref"], dtype=float) * BU + 5.0, np.array(r["est"], dtype=float) * BU + 5.0
        o = r["out"]
        d = {"ref": ref.tolist(), "est": est.tolist()}
        thr = fr(r["thr"])
        if o["ps"]["defined"] and not o["ps"]["tie"]:
            check("beat.p_score", lambda: me.beat.p_score(ref, est, p_score_threshold=thr) if r["thr"] != [1, 5] else me.beat.p_score(ref, est),
                  [fr(o["ps"]["score"])], dict(d, threshold=thr))
        else:
            skipped += 1
        check("beat.goto", lambda: me.beat.goto(ref, est), [float(o["goto"])], d)
        check("beat.goto", lambda: me.beat.goto(ref, est, goto_threshold=0.25, goto_mu=0.25, goto_sigma=0.5), [float(o["goto2"])], dict(d, params="(.25,.25,.5)"))
        for sigma in (0.04, 0.25):
            accs = [sum(math.exp(-(sq * BU * BU) / (2.0 * sigma ** 2)) for sq in v["sq"]) / (0.5 * v["norm2"]) for v in o["cem"]]
            kw = {} if sigma == 0.04 else {"cemgil_sigma": sigma}
            check("beat.cemgil", lambda: me.beat.cemgil(ref, est, **kw), [accs[0], max(accs)], dict(d, sigma=sigma))
        if r["thr"] == [1, 5]:
            check("beat.continuity", lambda: me.beat.continuity(ref, est), [fr(x) for x in o["cont"]], d)
            check("beat.continuity", lambda: me.beat.continuity(ref, est, continuity_phase_threshold=0.5, continuity_period_threshold=0.25),
                  [fr(x) for x in o["cont2"]], dict(d, params="(.5,.25)"))
            if o["igok"] and not (o["igf"]["edge"] or o["igb"]["edge"]):
                def H(c):
                    n = float(sum(c))
                    return -sum((x / n) * math.log2(x / n) for x in c if x > 0)
                ig = (math.log2(5) - max(H(o["igf"]["counts"]), H(o["igb"]["counts"]))) / math.log2(5)
                early = o["igf"]["early"] or o["igb"]["early"]
                check("beat.information_gain", lambda: me.beat.information_gain(ref, est, bins=5), [ig], dict(d, bins=5),
                      cls="a-beat-precedes-the-other-sequence's-first-beat/value-differs" if early else "value-differs")
            elif o["igok"]:
                skipped += 1
        ev.case(("beat", r["ref"], r["est"], r["thr"]), nontrivial=o["ps"]["score"][0] > 0)
    ev.sample({"model": "MC_C04_beat", "row": brow[len(brow) // 2]})
    # melody end to end: zero-padding, resampling onto the reference time base, the five measures
    res = tlc.run("MC_C04_melrs", cfg="MC_C04_melrs_T" if thorough else "MC_C04_melrs", timeout=3400, heap="8g")
    mrow = res["rows"]["ROW"]
    if len(mrow) * 2 != res["distinct"]:
        raise Machinery("MC_C04_melrs: %d rows for %d states" % (len(mrow), res["distinct"]))
    ev.tlc("MC_C04_melrs", res, "MelodyPre.tla (to_cent_voicing + measures); invariant Sane")
    HOP = 1.0 / 64

    def series(s_, sign_unvoiced):
        t = np.array(s_["t"], dtype=float) * HOP
        f = np.array([0.0 if c == 0 else (10.0 * 2.0 ** (c / 1200.0)) * (1.0 if v else sign_unvoiced) for c, v in zip(s_["c"], s_["v"])])
        return t, f
    for k, r in enumerate(mrow):
        if (k + seed) % (2 if thorough else 5):
            continue
        rt, rf = series(r["ref"], -1.0)
        et, ef = series(r["est"], -1.0)
        o = r["out"]
        d = {"ref_time": rt.tolist(), "ref_freq": rf.tolist(), "est_time": et.tolist(), "est_freq": ef.tolist()}
        want_cv = [fr(x) for key in ("rv", "rc", "ev", "ec") for x in o["cv"][key]]
        check("melody.to_cent_voicing", lambda: np.concatenate([np.asarray(a, dtype=float) for a in me.melody.to_cent_voicing(rt, rf, et, ef)]), want_cv, d,
              cls="to_cent_voicing-differs")
        check("melody.evaluate", lambda: list(me.melody.evaluate(rt, rf, et, ef).values()),
              [fr(o["recall"]), fr(o["fa"]), fr(o["rpa"]), fr(o["rca"]), fr(o["oa"])], d)
        ev.case(("melrs", r["ref"], r["est"]), nontrivial=r["ref"]["t"] != r["est"]["t"])
    ev.sample({"model": "MC_C04_melrs", "row": mrow[len(mrow) // 2]})
    # general pre-processing: explicit (continuous) voicing / reward, kinds linear|zero|nearest, constant hop
    res = tlc.run("MC_C04_melk", cfg="MC_C04_melk_T" if thorough else "MC_C04_melk", timeout=3400, heap="8g", deadlock=False)
    krow = res["rows"]["ROW"]
    if len(krow) * 2 != res["distinct"]:
        raise Machinery("MC_C04_melk: %d rows for %d states" % (len(krow), res["distinct"]))
    ev.tlc("MC_C04_melk", res, "MelodyPre!ToCentVoicingK (freq_to_voicing, padding, hop base, three kinds, cut/pad) + measures; invariants Sane, SelfPerfect")
    KU = 1.0 / 128

    def wseries(s_):
        t = np.array(s_["t"], dtype=float) * KU
        f = np.array([0.0 if c == 0 else 10.0 * 2.0 ** (c / 1200.0) for c in s_["c"]])
        w = np.array([fr(x) for x in s_["w"]])
        return t, f, w
    step = 3 if thorough else 9
    for k, r in enumerate(krow):
        if (k + seed) % step:
            continue
        rt, rf, rw = wseries(r["ref"])
        et, ef, ew = wseries(r["est"])
        o = r["out"]
        kw = {"kind": r["kind"]}
        if r["hop"]:
            kw["hop"] = r["hop"] * KU
        d = {"ref_time": rt.tolist(), "ref_freq": rf.tolist(), "ref_reward": rw.tolist(), "est_time": et.tolist(), "est_freq": ef.tolist(),
             "est_voicing": ew.tolist(), "kw": kw}
        want_cv = [fr(x) for key in ("rv", "rc", "ev", "ec") for x in o["cv"][key]]
        with HoldTracer(me) as ht:
            check("melody.to_cent_voicing",
                  lambda: np.concatenate([np.asarray(a, dtype=float) for a in me.melody.to_cent_voicing(rt, rf, et, ef, est_voicing=ew, ref_reward=rw, **kw)]),
                  want_cv, d, cls="to_cent_voicing-differs")
        # the traced internal state of every resampling that took place: the held pitch series (MelodyPre!HeldOf)
        if ht.available:
            want_held = [[float(x) for x in hs] for hs in o["cv"]["held"]]
            total += 1
            if len(ht.held) != len(want_held) or any(len(a) != len(b) or any(abs(x - y) > 1e-6 for x, y in zip(a, b)) for a, b in zip(ht.held, want_held)):
                rep.violation("melody.resample_melody_series", "held-pitch-state-differs", dict(d, traced=ht.held, expected=want_held))
        check("melody.evaluate", lambda: list(me.melody.evaluate(rt, rf, et, ef, est_voicing=ew, ref_reward=rw, **kw).values()),
              [fr(o["recall"]), fr(o["fa"]), fr(o["rpa"]), fr(o["rca"]), fr(o["oa"])], d)
        ev.case(("melk", r["ref"], r["est"], r["hop"], r["kind"]), nontrivial=r["ref"]["t"] != r["est"]["t"] or bool(r["hop"]))
    ev.sample({"model": "MC_C04_melk", "row": krow[len(krow) // 2]})
    # velocity-aware note matching: Velocity.tla (normalisation over all reference notes, least-squares rescaling of the
    # matched estimates, strict tolerance); the note matching itself is the identity here (identical, separated notes)
    res = tlc.run("MC_Velocity", cfg="MC_Velocity_T" if thorough else "MC_Velocity", timeout=3400, heap="8g")
    vrow = res["rows"]["ROW"]
    if len(vrow) * 2 != res["distinct"]:
        raise Machinery("MC_Velocity: %d rows for %d states" % (len(vrow), res["distinct"]))
    ev.tlc("MC_Velocity", res, "Velocity.tla; invariants NormalEq (least-squares normal equations), TolMonotone, AffinePerfect")
    tv = me.transcription_velocity
    for k, r in enumerate(vrow):
        if not thorough and (k + seed) % 3:
            continue
        n = len(r["rv"])
        nref = n + len(r["nx"])
        ri = np.array([[float(i), i + 0.5] for i in range(nref)])
        ei = ri[:n].copy()
        rp, epp = np.full(nref, 440.0), np.full(n, 440.0)
        rvel, evel = np.array(r["rv"] + r["nx"], dtype=float) / r["u"], np.array(r["evl"], dtype=float) / r["u"]
        for o in r["out"].values():
            tol = o["tol"][0] / float(o["tol"][1])
            d = {"ref_velocities": rvel.tolist(), "est_velocities": evel.tolist(), "velocity_tolerance": tol, "matched_pairs": n}
            total += 1
            try:
                got = sorted(int(i) + 1 for i, j in tv.match_notes(ri, rp, rvel, ei, epp, evel, velocity_tolerance=tol))
                okset = set(o["keep"]) <= set(got) <= set(o["keep"]) | set(o["tie"])
                if not okset:
                    rep.violation("transcription_velocity.match_notes", "kept-pairs-differ", dict(d, got=got, expected=o["keep"], on_tolerance=o["tie"]))
                elif not o["tie"]:
                    p_, r_, f_, _ = tv.precision_recall_f1_overlap(ri, rp, rvel, ei, epp, evel, velocity_tolerance=tol)
                    want = (len(o["keep"]) / float(n), len(o["keep"]) / float(nref))
                    if abs(p_ - want[0]) > 1e-9 or abs(r_ - want[1]) > 1e-9:
                        rep.violation("transcription_velocity.precision_recall_f1_overlap", "value-differs", dict(d, got=[p_, r_], expected=list(want)))
                else:
                    skipped += 1
            except Exception as ex:  # noqa
                rep.violation("transcription_velocity.match_notes", "raised-" + type(ex).__name__, dict(d, message=str(ex)[:200]))
        ev.case(("velocity", r["rv"], r["evl"], r["nx"]), nontrivial=n >= 2 and len(set(r["evl"])) > 1)
    ev.sample({"model": "MC_Velocity", "row": vrow[len(vrow) // 2]})
    # pattern discovery scores
    res = tlc.run("MC_C04_pattern", cfg="MC_C04_pattern", timeout=3000, heap="8g")
    prow = res["rows"]["ROW"]
    if len(prow) * 2 != res["distinct"]:
        raise Machinery("MC_C04_pattern: %d rows for %d states" % (len(prow), res["distinct"]))
    ev.tlc("MC_C04_pattern", res, "Pattern.tla definitions; invariants InRange, SwapSym, SelfPerfect")
    pt = me.pattern

    def pats(A):
        return [[[(float(o) * 0.5, float(m)) for o, m in occ] for occ in p] for p in A]
    for k, r in enumerate(prow):
        if not thorough and (k + seed) % 2:
            continue
        R_, E_ = pats(r["ref"]), pats(r["est"])
        o = r["out"]
        d = {"ref": R_, "est": E_}
        f3 = lambda x: [fr(x["f"]), fr(x["p"]), fr(x["r"])]  # noqa
        check("pattern.standard_FPR", lambda: pt.standard_FPR(R_, E_), f3(o["std"]), d)
        check("pattern.establishment_FPR", lambda: pt.establishment_FPR(R_, E_), f3(o["est"]), d)
        check("pattern.occurrence_FPR", lambda: pt.occurrence_FPR(R_, E_, thres=0.5), f3(o["occ5"]), dict(d, thres=0.5))
        check("pattern.occurrence_FPR", lambda: pt.occurrence_FPR(R_, E_), f3(o["occ75"]), dict(d, thres="default"))
        check("pattern.three_layer_FPR", lambda: pt.three_layer_FPR(R_, E_), f3(o["three"]), d)
        if R_ and E_:
            check("pattern.first_n_three_layer_P", lambda: pt.first_n_three_layer_P(R_, E_, n=1), [fr(o["ffp"])], d)
            check("pattern.first_n_target_proportion_R", lambda: pt.first_n_target_proportion_R(R_, E_, n=1), [fr(o["fftp"])], d)
        ev.case(("pattern", r["ref"], r["est"]), nontrivial=bool(R_ and E_))
    ev.sample({"model": "MC_C04_pattern", "row": prow[len(prow) // 2]})
    # the whole key domain
    res = tlc.run("MC_Key", cfg="MC_Key", timeout=600)
    ev.tlc("MC_Key", res, "whole key domain: relationship table")
    for r in res["rows"]["ROW"]:
        def ks(x):
            return "X" if x["tonic"] < 0 else (x["name"][0].upper() + x["name"][1:] + " " + x["mode"])
        check("key.weighted_score", lambda: me.key.weighted_score(ks(r["r"]), ks(r["e"])), [fr(r["score"])], {"ref": ks(r["r"]), "est": ks(r["e"])})
        ev.case(("key", r["r"]["name"], r["r"]["mode"], r["e"]["name"], r["e"]["mode"]), nontrivial=True)
    ev.cov["traces_validated_against_impl"] = total
    ev.cov["threshold_ties_skipped"] = skipped
    ev.cov["rule"] = ("rows of the six MC_C04 domains (all in the thorough tier; every 2nd/3rd row of the large ones in quick) + the "
                      "whole key domain, replayed into the public functions and compared to 1e-9 with exact rationals; distinct = "
                      "distinct (domain, input, parameters)")
    ev.cov["exhaustive"] = True
    ev.d["assumptions"] = ["time unit 1/8 s (1/16 s for notes), cents given directly to the melody measures, integer tempi; a tempo "
                           "relative error exactly on the tolerance is exempt, as the property states",
                           "Cemgil: the spec supplies the squared distances and normalisers of the five metrical variations, exp() is "
                           "evaluated by the harness; Goto is transcribed from the documented procedure; P-score rows whose window "
                           "rounding is an exact .5 tie are skipped; continuity and information gain are not yet specified"]
    code = rep.finish()
    ev.write(violations=len(rep.violations))
    return code


def replay(path):
    v = json.load(open(path))
    print(json.dumps(v, indent=1)[:3000])
    return run("quick", 0)
