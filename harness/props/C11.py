"""C11 - chord comparison rules form the documented lattice.

MC_C11 enumerates every (reference label, estimated label) pair of a structured family (N, X, every
shorthand x basses, single degree additions/omissions) x root offsets; TLC checks the lattice on the
specification of each pair (values in {-1,0,1}; tetrads_inv => tetrads => triads => thirds => root;
*_inv => plain; majmin => triads; sevenths => tetrads; tetrads match never a mirex mismatch; -1 a
function of the reference alone; self-comparison never 0) and exports the twelve specified values.
The harness renders both labels and calls the twelve public functions - in batches that mix X, N
and ordinary chords (so that a per-call mask cannot hide behind single-pair calls), singly for a
sample, and in permuted order - and compares all values."""
import json
import random

import numpy as np

from .. import tlc
from ..common import Evidence, Reporter, import_mir_eval, Machinery
from .C10 import render

PROP = "C11"
RULES = ["thirds", "thirds_inv", "triads", "triads_inv", "tetrads", "tetrads_inv", "root", "mirex", "majmin", "majmin_inv",
         "sevenths", "sevenths_inv"]


def label(ast):
    if ast["kind"] != "chord":
        return ast["kind"]
    acc = ("b" * -ast["acc"]) if ast["acc"] < 0 else ("#" * ast["acc"])
    s = ast["letter"] + acc

    def deg(d):
        a = ("b" * -d["acc"]) if d["acc"] < 0 else ("#" * d["acc"])
        return ("*" if d.get("omit") else "") + a + str(d["num"])
    if ast["sh"] == "paren":
        s += ":"
    elif ast["sh"] != "none":
        s += ":" + ast["sh"]
    if ast["degs"]:
        s += "(" + ",".join(deg(d) for d in ast["degs"]) + ")"
    if ast["bass"]:
        s += "/" + deg(ast["bass"][0])
    return s


def check_rows(me, rows, rep, ev, rng, prop, batch=400, singles=300):
    c = me.chord
    fns = [getattr(c, r) for r in RULES]
    order = list(range(len(rows)))
    rng.shuffle(order)
    n_bad = 0
    for b0 in range(0, len(order), batch):
        idx = order[b0:b0 + batch]
        refs = [label(rows[i]["r"]) for i in idx]
        ests = [label(rows[i]["e"]) for i in idx]
        for j, fn in enumerate(fns):
            try:
                got = fn(refs, ests)
            except Exception as ex:  # noqa
                rep.violation("chord." + RULES[j], "raised-" + type(ex).__name__, {"ref": refs[:5], "est": ests[:5]})
                continue
            got = np.asarray(got)
            if got.shape != (len(idx),):
                rep.violation("chord." + RULES[j], "wrong-shape", {"shape": list(got.shape), "n": len(idx)})
                continue
            exp = np.array([rows[i]["cmp"][j] for i in idx], dtype=float)
            for p in np.flatnonzero(got != exp):
                n_bad += 1
                rep.violation("chord." + RULES[j], "value-differs-in-batch",
                              {"ref": refs[p], "est": ests[p], "expected": float(exp[p]), "got": float(got[p]),
                               "batch_has_X": "X" in refs, "rule": RULES[j]})
        for i in idx:
            ev.case((label(rows[i]["r"]), label(rows[i]["e"])), nontrivial=any(v == 1 for v in rows[i]["cmp"]) and
                    any(v == 0 for v in rows[i]["cmp"]))
    # single-pair calls for a sample (a batch can mask per-row problems and vice versa)
    for i in order[:singles]:
        r, e = label(rows[i]["r"]), label(rows[i]["e"])
        for j, fn in enumerate(fns):
            try:
                got = float(fn([r], [e])[0])
            except Exception as ex:  # noqa
                rep.violation("chord." + RULES[j], "raised-" + type(ex).__name__, {"ref": r, "est": e})
                continue
            if got != rows[i]["cmp"][j]:
                rep.violation("chord." + RULES[j], "value-differs-single", {"ref": r, "est": e, "expected": rows[i]["cmp"][j],
                                                                            "got": got, "rule": RULES[j]})
    return n_bad


def run(tier, seed):
    me = import_mir_eval()
    rng = random.Random(seed)
    ev = Evidence(PROP, tier, seed)
    rep = Reporter(PROP)
    cfg = "MC_C11_T" if tier == "thorough" else "MC_C11"
    res = tlc.run("MC_C11", cfg=cfg, timeout=3400, heap="8g")
    rows = res["rows"]["ROW"]
    if len(rows) * 2 != res["distinct"]:
        raise Machinery("%s: %d rows for %d states" % (cfg, len(rows), res["distinct"]))
    ev.tlc(cfg, res, "invariants Lattice, IgnoredByReferenceAlone on the specification of every pair")
    check_rows(me, rows, rep, ev, rng, PROP, singles=3000 if tier == "thorough" else 400)
    ev.cov["traces_validated_against_impl"] = len(rows)
    r = rows[len(rows) // 3]
    ev.sample({"ref": label(r["r"]), "est": label(r["e"]), "spec_values": dict(zip(RULES, r["cmp"]))})
    ev.cov["rule"] = ("every (reference, estimate) pair of the MC_C11 families x root offsets; all 12 functions called in "
                      "shuffled batches (mixing X/N/chords) and singly for a sample; distinct = distinct label pair; "
                      "non-trivial = at least one rule matches and one mismatches")
    ev.cov["exhaustive"] = True
    ev.d["assumptions"] = ["rules are specified on encodings; vocabulary readings that follow mir_eval/MIREX (majmin admits C:7 "
                           "through its triad; an X estimate counts as every pitch class for mirex; root(N,X)=1) are named in "
                           "DESIGN.md"]
    # code -> spec: the lattice judged by TLC (Trace_C11) on values recorded for the real vocabulary of the repository's
    # chord fixtures - label pairs as they face each other after the annotations are merged
    from .. import trace, realdata
    pairs = {}
    for nm, (ri, rl, ei, el) in realdata.pairs(me, "chord", None if tier == "thorough" else 4):
        try:
            ei2, el2 = me.util.adjust_intervals(ei, el, ri.min(), ri.max(), me.chord.NO_CHORD, me.chord.NO_CHORD)
            _, rl3, el3 = me.util.merge_labeled_intervals(ri, rl, ei2, el2)
        except Exception:  # noqa
            continue
        for a_, b_ in zip(rl3, el3):
            pairs.setdefault(a_, set()).add(b_)
    events = []
    fns = [getattr(me.chord, r_) for r_ in RULES]
    for a_, bs in sorted(pairs.items()):
        bs = sorted(bs)
        try:
            cols = [fn([a_] * (len(bs) + 1), [a_] + bs) for fn in fns]
        except Exception as ex:  # noqa
            rep.violation("chord.compare", "raised-" + type(ex).__name__, {"ref": a_, "est": bs[:5], "message": str(ex)[:200]})
            continue
        vals = [[int(col[k]) if float(col[k]).is_integer() else 7 for col in cols] for k in range(len(bs) + 1)]
        events.append({"tid": len(events) + 1, "ref": a_, "ests": bs, "self": vals[0], "vals": vals[1:]})
    if events:
        rejects, st = trace.validate_par("Trace_C11", [{k: v for k, v in e.items() if k in ("tid", "self", "vals")} for e in events])
        ev.tlc("Trace_C11", st, "lattice verdicts on values recorded for the fixtures' label pairs")
        for rj in rejects:
            e = events[rj["tid"] - 1]
            rep.violation("chord.compare", "fixture-pairs/" + rj["clause"], {"ref": e["ref"], "ests": e["ests"], "self": e["self"], "vals": e["vals"]})
        ev.cov["fixture_reference_labels_judged"] = len(events)
        ev.cov["fixture_label_pairs_judged"] = sum(len(e["ests"]) for e in events)
    code = rep.finish()
    ev.write(violations=len(rep.violations))
    return code


def replay(path):
    me = import_mir_eval()
    v = json.load(open(path))
    d = v["detail"]
    if "rule" in d:
        got = float(getattr(me.chord, d["rule"])([d["ref"]], [d["est"]])[0])
        print(d["rule"], d["ref"], d["est"], "expected", d["expected"], "got now", got)
        if got != d["expected"]:
            print("VIOLATION property=C11 replay=%s" % path)
            return 1
        print("HOLDS for the single pair (batch effects need ./check C11 quick)")
        return 0
    print(json.dumps(d)[:1000])
    return 1
