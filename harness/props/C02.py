"""C02 - a perfect estimate receives the perfect score in every task.

Specification level: Copy is a transformation of the session machine; on the definitions TLC checks
that a copy of the reference is matched completely (MC_C05_events SelfMatch), scores 1 on every chord
rule and segmentation score (MC_C12 PerfectEstimate), has ARI/Rand/pairwise 1 (MC_C16 PerfectWhenSame)
and key score 1 (MC_Key SelfPerfect).  Code level: seeded NON-DEGENERATE annotations (>= 5
well-separated beats, >= 1 voiced frame, in-vocabulary chords, <= n patterns with distinct
prototypes, ...) are scored against a deep copy and against the very same objects (alias) through
evaluate() and every metric function; Trace_Rel judges each outcome against Relations!PerfectSpec
(1 for agreement scores, 0 for errors / false alarm / deviation)."""
import copy
import json
import random

import numpy as np

from .. import tlc, gen
from ..common import Evidence, Reporter, import_mir_eval
from ..relations import RelLog, call

PROP = "C02"


def nd_beats(rng):
    n = rng.randint(5, 14)
    period = rng.choice([4, 5, 6, 8])
    t = [rng.randint(40, 60)]
    for _ in range(n - 1):
        t.append(t[-1] + period + rng.choice([0, 0, 0, 1]))
    return np.array(t, dtype=float) * 0.125


def nd_segments(rng, fs):
    """>= 2 segments whose FRAME labels (sampled every fs) contain >= 2 distinct labels and a repeated one"""
    while True:
        iv, labs = gen.gen_segmentation(rng, "random", labels="abcAB")
        n = int(np.floor(iv.max() / fs))
        fl = []
        for k in range(n):
            t = k * fs
            fl.append([str(l).lower() for (a, b), l in zip(iv, labs) if a <= t <= b][-1])
        if len(iv) >= 2 and len(set(fl)) >= 2 and len(fl) > len(set(fl)):
            return iv, labs


def nd_chords(rng):
    iv, _ = gen.gen_segmentation(rng, "random", start=rng.choice([0, 2]))
    return iv, [rng.choice(["C:maj", "G:min", "N", "F:maj7", "A:7", "D:min7", "C", "E:min/b3", "G:7/3"]) for _ in iv]


def nd_melody(rng):
    n = rng.randint(3, 14)
    t = np.arange(n) * (1.0 / 64)
    f = np.array([0.0 if rng.random() < 0.3 else 110.0 * 2 ** (rng.choice([0, 20, 700, 1200]) / 1200.0) for _ in range(n)])
    f[rng.randrange(n)] = 220.0
    return t, f


def nd_multipitch(rng):
    n = rng.randint(1, 6)
    fr = [np.array(sorted(440.0 * 2 ** (rng.randint(-24, 30) / 24.0) for _ in range(rng.randint(0, 3)))) for _ in range(n)]
    fr[rng.randrange(n)] = np.array([220.0, 440.0]) if rng.random() < 0.7 else np.array([330.0, 330.0])
    return np.arange(n) * 0.25, fr


def nd_notes(rng, same_velocity=False):
    n = rng.randint(1, 7)
    on = np.cumsum([rng.randint(3, 9) for _ in range(n)])
    du = [rng.randint(1, 8) for _ in range(n)]
    iv = np.array([[o / 16.0, (o + d) / 16.0] for o, d in zip(on, du)], dtype=float)
    p = np.array([440.0 * 2 ** (rng.choice([0, 40, 80, 1200, -500]) / 1200.0) for _ in range(n)])
    v = np.array([64.0] * n) if same_velocity else np.array([float(rng.choice([10, 40, 64, 90, 127])) for _ in range(n)])
    perm = list(range(n)); rng.shuffle(perm)
    return iv[perm], p[perm], v[perm]


def nd_patterns(rng):
    k = rng.randint(1, 5)
    pats = []
    for i in range(k):
        base = sorted({(float(rng.randint(0, 12)) * 0.5 + 0.25 * j, float(60 + j + rng.randint(0, 3))) for j in range(i + 1)})
        while len(base) < i + 1:
            base.append((base[-1][0] + 0.5, base[-1][1] + 1))
        pats.append([[(o + 8.0 * r, m) for (o, m) in base] for r in range(rng.randint(1, 3))])
    return pats


def depth_matrix(hi, hl, fs, labels):
    """frame-pair depth: deepest level at which the two frames share a segment (labels=False) or a label"""
    n = int(round(hi[0][-1, 1] / fs))
    D = np.zeros((n, n), dtype=int)
    for lv, (iv, labs) in enumerate(zip(hi, hl), 1):
        seg = [None] * n
        for k in range(n):
            t = k * fs
            for i, (a, b) in enumerate(iv):
                if a <= t < b:
                    seg[k] = str(labs[i]).lower() if labels else i
        for i in range(n):
            for j in range(n):
                if seg[i] is not None and seg[i] == seg[j]:
                    D[i, j] = lv
    return D


def defined(D, window, transitive):
    """some query frame has a triple (q,i,j) that the annotation ranks (by one level / any number)"""
    n = len(D)
    w = n if window is None else window
    for q in range(n):
        idx = [i for i in range(max(0, q - w), min(n, q + w)) if i != q]
        vals = {D[q, i] for i in idx}
        if transitive and len(vals) >= 2:
            return True
        if not transitive and any(v + 1 in vals for v in vals):
            return True
    return False


def nd_hierarchy(rng):
    """hierarchies on which reduced and full T-measure (window 1 s = 4 frames) and L-measure are all defined"""
    while True:
        hi, hl, _, _ = gen.gen_hierarchy(rng, "random")
        if len(hi) < 2:
            continue
        Dt, Dl = depth_matrix(hi, hl, 0.25, False), depth_matrix(hi, hl, 0.25, True)
        if defined(Dt, 4, False) and defined(Dt, 4, True) and defined(Dl, None, True):
            return hi, hl


def run(tier, seed):
    me = import_mir_eval()
    rng = random.Random(seed)
    ev = Evidence(PROP, tier, seed)
    rep = Reporter(PROP)
    thorough = tier == "thorough"
    for m, cfg, note in (("MC_C05_events", "MC_C05_events", "SelfMatch"), ("MC_C12", "MC_C12", "PerfectEstimate"),
                         ("MC_C16", "MC_C16", "PerfectWhenSame"), ("MC_Key", "MC_Key", "SelfPerfect")):
        res = tlc.run(m, cfg=cfg, timeout=3000, heap="8g", want=())
        ev.tlc(cfg, res, "invariant " + note + " (copy of the reference is optimal on the definition)")
    log = RelLog()

    def perfect(fn_name, fn, x, kw=None, meta=None):
        """x: tuple of the reference-side arguments; scored against a deep copy and against itself"""
        kw = kw or {}
        for mode in ("copy", "alias"):
            y = copy.deepcopy(x) if mode == "copy" else x
            r = call(fn, *(tuple(x) + tuple(y)), **kw)
            log.add("perfect2", fn_name, r, r, dict(meta or {}, mode=mode, kw=str(kw)))

    def perfect_args(fn_name, fn, args, kw=None, meta=None):
        r = call(fn, *args, **(kw or {}))
        log.add("perfect2", fn_name, r, r, dict(meta or {}, kw=str(kw or {})))

    # extended shorthands next to their own explicit-degree variants, each on a FRESHLY imported library: the reference side
    # is processed first, so anything the library remembers from it would make the identical estimate differ
    for q, d in (("9", "13"), ("min9", "11"), ("maj9", "#11"), ("11", "13"), ("13", "b9"), ("min11", "13"), ("maj13", "#9"), ("minmaj7", "9")):
        m2 = import_mir_eval()
        root = rng.choice(["G", "C", "Eb", "F#"])
        labs_x = ["%s:%s" % (root, q), "%s:%s(%s)" % (root, q, d), "%s:%s" % (root, q), "C:maj", "%s:%s" % (root, q)]
        civ = np.array([[k, k + 1.0] for k in range(len(labs_x))])
        r = call(m2.chord.evaluate, civ, labs_x, civ.copy(), list(labs_x))
        log.add("perfect2", "chord.evaluate", r, r, {"intervals": civ.tolist(), "labels": labs_x, "mode": "copy, fresh import", "kw": "{}"})
    me = import_mir_eval()
    b, s, c, mel, mp, tr, tv, p, h, al = (me.beat, me.segment, me.chord, me.melody, me.multipitch, me.transcription,
                                          me.transcription_velocity, me.pattern, me.hierarchy, me.alignment)
    for it in range(250 if thorough else 50):
        x = nd_beats(rng)
        m = {"beats": x.tolist()}
        for name in ("f_measure", "cemgil", "goto", "p_score", "continuity", "information_gain", "evaluate"):
            perfect("beat." + name, getattr(b, name), (x,), meta=m)
        perfect("beat.f_measure", b.f_measure, (x,), {"f_measure_threshold": 0.0}, m)
        o = np.array(sorted(rng.randint(0, 60) for _ in range(rng.randint(1, 9))), dtype=float) * 0.125
        perfect("onset.f_measure", me.onset.f_measure, (o,), {"window": rng.choice([0.0, 0.05, 0.125])}, {"onsets": o.tolist()})
        perfect("onset.evaluate", me.onset.evaluate, (o,), meta={"onsets": o.tolist()})
        fs = rng.choice([0.25, 0.5])
        iv, labs = nd_segments(rng, fs)
        m = {"intervals": iv.tolist(), "labels": labs}
        perfect_args("segment.detection", s.detection, (iv, iv.copy()), {"window": rng.choice([0.0, 0.5]), "trim": rng.random() < 0.5}, m)
        perfect_args("segment.deviation", s.deviation, (iv, iv.copy()), {"trim": rng.random() < 0.5}, m)
        for name in ("pairwise", "rand_index", "ari", "mutual_information", "nce", "vmeasure"):
            perfect("segment." + name, getattr(s, name), (iv, labs), {"frame_size": fs}, m)
        perfect("segment.nce", s.nce, (iv, labs), {"frame_size": fs, "marginal": True, "beta": 2.0}, m)
        perfect("segment.evaluate", s.evaluate, (iv, labs), {"frame_size": fs}, m)
        civ, clab = nd_chords(rng)
        perfect("chord.evaluate", c.evaluate, (civ, clab), meta={"intervals": civ.tolist(), "labels": clab})
        t, f = nd_melody(rng)
        perfect("melody.evaluate", mel.evaluate, (t, f), meta={"freq": f.tolist()})
        perfect("melody.evaluate", mel.evaluate, (t, f), {"cent_tolerance": 10, "base_frequency": 20.0}, {"freq": f.tolist()})
        # the same series on both sides stays perfect under every resampling option (both sides get the same treatment);
        # the first frames are voiced so that a voiced frame survives any hop
        f2 = f.copy()
        f2[:2] = [220.0, 233.0]
        for kw in ({"hop": 3.0 / 256, "kind": "nearest"}, {"hop": 3.0 / 256, "kind": "zero"}, {"hop": 1.0 / 128, "kind": "linear"},
                   {"hop": 5.0 / 256, "kind": rng.choice(["nearest", "zero", "slinear"])}):
            perfect("melody.evaluate", mel.evaluate, (t, f2), kw, {"freq": f2.tolist()})
        # a soft reference reward (Bittner & Bosch) with a hop finer than the annotation's grid: the copy still has the
        # best raw pitch / chroma accuracy.  Input class (for the recorded finding): the reward is interpolated across a
        # transition from a pitchless frame to a pitched one (MC_C04_melk: QuirkClass - found by TLC)
        rw = np.array([0.0 if x == 0 else rng.choice([0.25, 0.5, 0.75, 1.0]) for x in f2])
        quirk = bool(len(set(rw[rw > 0].tolist()) | {1.0}) > 1 and any(f2[i] == 0 and f2[i + 1] != 0 for i in range(len(f2) - 1)))
        r = call(mel.evaluate, t, f2, t.copy(), f2.copy(), ref_reward=rw, hop=1.0 / 128)
        log.add("perfect2", "melody.evaluate[soft reward]", r, r,
                {"freq": f2.tolist(), "ref_reward": rw.tolist(), "hop": 1.0 / 128, "mode": "copy", "kw": "{'hop': 1/128, 'ref_reward': ...}",
                 "class": "soft-reward-interpolated-across-a-pitchless-to-pitched-transition" if quirk else "general"})
        mt, mf = nd_multipitch(rng)
        perfect("multipitch.metrics", mp.metrics, (mt, mf), {"window": rng.choice([0.5, 0.01])}, {"freqs": [q.tolist() for q in mf]})
        perfect("multipitch.evaluate", mp.evaluate, (mt, mf), meta={"freqs": [q.tolist() for q in mf]})
        niv, npit, nvel = nd_notes(rng, same_velocity=(it % 4 == 0))
        m = {"intervals": niv.tolist(), "pitches": npit.tolist(), "velocities": nvel.tolist()}
        for kw in ({}, {"offset_ratio": None}, {"strict": False, "onset_tolerance": 0.0625, "offset_min_tolerance": 0.01}):
            perfect("transcription.precision_recall_f1_overlap", tr.precision_recall_f1_overlap, (niv, npit), kw, m)
            perfect("transcription_velocity.precision_recall_f1_overlap", tv.precision_recall_f1_overlap, (niv, npit, nvel), kw, m)
        perfect_args("transcription.onset_precision_recall_f1", tr.onset_precision_recall_f1, (niv, niv.copy()), {}, m)
        perfect_args("transcription.offset_precision_recall_f1", tr.offset_precision_recall_f1, (niv, niv.copy()), {}, m)
        perfect("transcription.evaluate", tr.evaluate, (niv, npit), meta=m)
        perfect("transcription_velocity.evaluate", tv.evaluate, (niv, npit, nvel), meta=m)
        a = float(rng.choice([60, 90, 100, 120]))
        tempi = np.array([a, a * rng.choice([2.0, 3.0, 1.5])])
        w = rng.choice([0.0, 0.25, 0.5, 1.0])
        perfect_args("tempo.detection", me.tempo.detection, (tempi, w, tempi.copy()), {"tol": rng.choice([0.0, 0.08])}, {"tempi": tempi.tolist(), "w": w})
        k = rng.choice(gen.KEYS)
        perfect_args("key.weighted_score", me.key.weighted_score, (k, str(k)), {}, {"key": k})
        pats = nd_patterns(rng)
        m = {"patterns": pats}
        for name in ("standard_FPR", "establishment_FPR", "occurrence_FPR", "three_layer_FPR", "first_n_three_layer_P",
                     "first_n_target_proportion_R", "evaluate"):
            perfect("pattern." + name, getattr(p, name), (pats,), meta=m)
        hi, hl = nd_hierarchy(rng)
        m = {"intervals": [q.tolist() for q in hi], "labels": hl}
        perfect_args("hierarchy.tmeasure", h.tmeasure, (hi, copy.deepcopy(hi)), {"frame_size": 0.25, "window": rng.choice([None, 1.0, 15.0]),
                                                                                   "transitive": rng.random() < 0.5}, m)
        perfect("hierarchy.lmeasure", h.lmeasure, (hi, hl), {"frame_size": 0.25}, m)
        perfect("hierarchy.evaluate", h.evaluate, (hi, hl), {"frame_size": 0.25}, m)
        ts = np.array(sorted(rng.sample(range(0, 80), rng.randint(2, 9))), dtype=float) * 0.125
        m = {"timestamps": ts.tolist()}
        perfect("alignment.absolute_error", al.absolute_error, (ts,), meta=m)
        perfect("alignment.percentage_correct", al.percentage_correct, (ts,), {"window": rng.choice([0.0, 0.3])}, m)
        perfect("alignment.percentage_correct_segments", al.percentage_correct_segments, (ts,), meta=m)
        perfect("alignment.percentage_correct_segments", al.percentage_correct_segments, (ts,), {"duration": float(ts[-1]) + 1.0}, m)
        perfect("alignment.evaluate", al.evaluate, (ts,), meta=m)
    # "scores whose reference has nothing to compare are 0 by documented convention"
    for it in range(6):
        civ, _ = nd_chords(rng)
        for tagname, pool in (("chord.evaluate[reference all X]", ["X"]), ("chord.evaluate[reference outside maj/min/7]", ["C:sus4", "D:dim", "F:aug", "G:hdim7", "A:sus2"])):
            labs_c = [rng.choice(pool) for _ in civ]
            r = call(c.evaluate, civ, labs_c, civ.copy(), list(labs_c))
            log.add("perfect2", tagname, r, r, {"intervals": civ.tolist(), "labels": labs_c, "mode": "copy"})
        siv, _ = nd_segments(rng, 0.25)
        one = [rng.choice("abc")] * len(siv)
        for kw in ({"frame_size": 0.25}, {"frame_size": 0.25, "marginal": True}):
            r = call(s.nce, siv, one, siv.copy(), list(one), **kw)
            log.add("perfect2", "segment.nce[one label]", r, r, {"intervals": siv.tolist(), "labels": one, "kw": str(kw), "mode": "copy"})
    # fixed witness of the recorded finding (soft reward interpolated across a pitchless-to-pitched transition)
    w_t, w_f, w_r = np.array([0.0, 2.0 / 128, 4.0 / 128]), np.array([0.0, 440.0, 440.0]), np.array([0.0, 0.5, 1.0])
    r = call(me.melody.evaluate, w_t, w_f, w_t.copy(), w_f.copy(), ref_reward=w_r, hop=1.0 / 128)
    log.add("perfect2", "melody.evaluate[soft reward]", r, r, {"freq": w_f.tolist(), "ref_reward": w_r.tolist(), "hop": 1.0 / 128, "witness": True,
                                                                "class": "soft-reward-interpolated-across-a-pitchless-to-pitched-transition"})
    bad, st = log.judge()
    ev.tlc("Trace_Rel", st, "PerfectSpec verdicts on recorded outcomes")
    ev.cov["traces_validated_against_impl"] = len(log.events)
    for fn, rel, clause, meta, a, b in bad:
        cls = meta.get("class", "general")
        tag = "perfect/" + clause.split("/")[0] if cls == "general" else cls + "/perfect:" + clause.split("@")[0]
        rep.violation(fn.split("[")[0], tag, {"failing": clause, "input": meta, "outcome": a})
    for e in log.events:
        ev.case((e["fn"], str(log.meta[e["tid"]][2])[:400]), nontrivial=e["aexc"] == "ok")
    ev.sample({"fn": log.events[0]["fn"], "input": log.meta[1][2], "outcome": log.meta[1][3][1]})
    ev.cov["rule"] = ("seeded non-degenerate annotations scored against a deep copy and against the same objects, through every "
                      "evaluate() and metric function of the 13 tasks; distinct = distinct (function, annotation, parameters, "
                      "copy/alias)")
    ev.d["assumptions"] = ["non-degeneracy is enforced by the generators as the property words it (>=5 beats with gaps > 2 x the "
                           "P-score window, >=1 voiced frame, chords inside every rule's vocabulary, <= n patterns with "
                           "prototypes of different sizes, note onsets further apart than the onset tolerance, ...)"]
    code = rep.finish()
    ev.write(violations=len(rep.violations))
    return code


def replay(path):
    v = json.load(open(path))
    print(json.dumps(v, indent=1)[:3000])
    return run("quick", 0)
