"""Run by C15 in a FRESH interpreter with a given PYTHONHASHSEED: score a fixed pool of inputs through every
evaluate() (and the label-indexing helpers) and print one digest per call.  Results must not depend on the
interpreter's string-hash randomisation (set / dict iteration order)."""
import json
import random
import sys
import warnings

warnings.simplefilter("ignore")


def main(seed):
    from harness.common import import_mir_eval
    from harness import gen
    from harness.props.C15 import digest
    me = import_mir_eval()
    T = gen.catalogue(me)
    out = {}
    for name in sorted(T):
        t = T[name]
        for i in range(3):
            r = random.Random("%s-hs-%d-%d" % (name, i, seed))
            shape = t.shapes[i % len(t.shapes)]
            args = t.gen(r, shape)
            for tag, kw in (("default", {}), ("kw", dict(t.kw_pool))):
                try:
                    res = ("ret", t.evaluate(*args, **kw))
                except Exception as ex:  # noqa
                    res = ("exc", type(ex).__name__)
                out["%s/%d/%s" % (name, i, tag)] = digest(res).hex()
    # helpers whose natural implementation iterates over sets of labels
    r = random.Random("labels-%d" % seed)
    labs = [r.choice(["verse", "Verse", "chorus", "bridge", "intro", "outro", "a", "B", "b"]) for _ in range(12)]
    out["util.index_labels"] = digest(me.util.index_labels(labs)).hex()
    out["util.index_labels/case"] = digest(me.util.index_labels(labs, case_sensitive=True)).hex()
    out["chord.encode_many"] = digest(me.chord.encode_many([r.choice(gen.CHORDS) for _ in range(12)])).hex()
    print("PROBE" + json.dumps(out, sort_keys=True))


if __name__ == "__main__":
    main(int(sys.argv[1]))
