"""Batch validation of recorded events by a TLA+ trace specification (one TLC run per batch)."""
import json
import os
import shutil

from . import tlc
from .common import Machinery


def validate(module, events, batch=4000, timeout=1800, cfg=None):
    """events: list of JSON-able dicts, each with a unique 'tid'.  Returns (rejects, stats) where
    rejects is a list of {"tid","clause"} and stats sums TLC states.  Raises Machinery when TLC did
    not consume every event (a broken run never reads as a pass)."""
    rejects, gen, dist, wall = [], 0, 0, 0.0
    for k in range(0, len(events), batch):
        chunk = events[k:k + batch]
        d = tlc.scratch_dir("trace_")
        path = os.path.join(d, "trace.json")
        try:
            with open(path, "w") as f:
                json.dump(chunk, f)
            res = tlc.run(module, cfg=cfg or module, workers=1, env={"TRACE_FILE": path},
                          timeout=timeout, want=("REJECT", "DONE"))
        finally:
            shutil.rmtree(d, ignore_errors=True)
        done = res["rows"]["DONE"]
        if not done or done[-1]["n"] != len(chunk) or done[-1]["consumed"] != len(chunk):
            raise Machinery("trace spec %s consumed %s of %d events" % (module, done, len(chunk)))
        rejects += res["rows"]["REJECT"]
        gen += res["generated"]; dist += res["distinct"]; wall += res["wall_s"]
    return rejects, {"generated": gen, "distinct": dist, "wall_s": wall}


def validate_par(module, events, batch=20000, timeout=1800, cfg=None, workers=16):
    """Independent events: every event is an initial state of the trace spec, one verdict step each.
    All events consumed <=> TLC found exactly 2*N distinct states (checked)."""
    rejects, gen, dist, wall = [], 0, 0, 0.0
    for k in range(0, len(events), batch):
        chunk = events[k:k + batch]
        d = tlc.scratch_dir("trace_")
        path = os.path.join(d, "trace.json")
        try:
            with open(path, "w") as f:
                json.dump(chunk, f)
            res = tlc.run(module, cfg=cfg or module, workers=workers, env={"TRACE_FILE": path},
                          timeout=timeout, want=("REJECT",))
        finally:
            shutil.rmtree(d, ignore_errors=True)
        if res["distinct"] != 2 * len(chunk):
            raise Machinery("trace spec %s: %d distinct states for %d events" % (module, res["distinct"], len(chunk)))
        rejects += res["rows"]["REJECT"]
        gen += res["generated"]; dist += res["distinct"]; wall += res["wall_s"]
    return rejects, {"generated": gen, "distinct": dist, "wall_s": wall}
