"""setup_cmd body: everything is interpreted (TLA+ and Python); 'building' = parsing every spec module
with SANY and importing the harness, so that a broken tree is found before any check runs."""
import glob
import os
import sys

HERE = os.path.dirname(os.path.dirname(os.path.abspath(__file__)))
sys.path.insert(0, HERE)
from harness import tlc  # noqa

bad = 0
mods = sorted(glob.glob(os.path.join(HERE, "spec", "*.tla")))
for m in mods:
    name = os.path.basename(m)[:-4]
    ok, out = tlc.sany(name)
    if not ok:
        bad += 1
        print("SANY FAILED:", name)
        print(out[-1500:])
print("parsed %d TLA+ modules, %d failed" % (len(mods), bad))
sys.exit(1 if bad else 0)
