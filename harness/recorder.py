"""Record call/return events of mir_eval functions from the UNMODIFIED code.

Uses sys.monitoring (CPython 3.12): PY_START / PY_RETURN / PY_UNWIND enabled *locally* on the
code objects of the chosen functions only, so nothing else is slowed down and nothing in /repo is
edited or wrapped (wrapping would change __code__.co_varnames, which util.filter_kwargs reads).

An event is {"fn", "depth", "args": {name: snapshot}, "post": {name: snapshot},
             "ret" | "exc"}.  Snapshots are deep copies taken at call time ("args") and at return
time ("post"), so purity (C15) can be judged on every recorded call.
Enabled only when the harness asks for it (the guard MIR_EVAL_VERIF=1 is set by ./check).
"""
import copy
import sys
import types

import numpy as np

TOOL = 2  # sys.monitoring.PROFILER_ID


def snap(x, depth=0):
    """deep, comparison-friendly copy of an argument"""
    if isinstance(x, np.ndarray):
        return x.copy()
    if isinstance(x, (list, tuple)):
        if depth > 6:
            return repr(x)
        return type(x)(snap(v, depth + 1) for v in x) if not hasattr(x, "_fields") else x
    if isinstance(x, dict):
        return {k: snap(v, depth + 1) for k, v in x.items()}
    if isinstance(x, (int, float, str, bool, type(None), np.generic)):
        return x
    if isinstance(x, types.FunctionType):
        return "<function %s.%s>" % (x.__module__, x.__qualname__)
    try:
        return copy.deepcopy(x)
    except Exception:
        return repr(x)


def same(a, b):
    """bitwise/structural equality of two snapshots (NaN equals NaN; dtype and shape matter)"""
    if isinstance(a, np.ndarray) or isinstance(b, np.ndarray):
        if not (isinstance(a, np.ndarray) and isinstance(b, np.ndarray)):
            return False
        if a.shape != b.shape or a.dtype != b.dtype:
            return False
        if a.dtype == object:
            return all(same(x, y) for x, y in zip(a.ravel().tolist(), b.ravel().tolist()))
        return a.tobytes() == b.tobytes()
    if type(a) != type(b):
        return False
    if isinstance(a, (list, tuple)):
        return len(a) == len(b) and all(same(x, y) for x, y in zip(a, b))
    if isinstance(a, dict):
        return list(a.keys()) == list(b.keys()) and all(same(a[k], b[k]) for k in a)
    if isinstance(a, float):
        return a == b or (a != a and b != b)
    if isinstance(a, np.generic):
        return a.tobytes() == b.tobytes()
    return a == b


class Recorder:
    def __init__(self, functions, keep_args=True, hook=None):
        """functions: iterable of python function objects (module-level mir_eval functions)."""
        self.codes = {}
        for f in functions:
            f = getattr(f, "__wrapped__", f)
            self.codes[f.__code__] = "%s.%s" % (f.__module__.replace("mir_eval.", ""), f.__name__)
        self.events = []
        self.stack = []
        self.keep_args = keep_args
        self.hook = hook
        self.active = False

    # -- monitoring callbacks
    def _start(self, code, off):
        name = self.codes.get(code)
        if name is None:
            return
        fr = sys._getframe(1)
        nargs = code.co_argcount + code.co_kwonlyargcount
        names = list(code.co_varnames[:nargs])
        flags = code.co_flags
        if flags & 0x04:
            names.append(code.co_varnames[nargs]); nargs += 1
        if flags & 0x08:
            names.append(code.co_varnames[nargs])
        loc = fr.f_locals
        live = {n: loc[n] for n in names if n in loc}
        # *args / **kwargs containers belong to the callee (fresh tuple / dict); what the CALLER owns
        # are the objects inside them, so those are tracked individually
        if flags & 0x04:
            va = code.co_varnames[code.co_argcount + code.co_kwonlyargcount]
            for k, v in enumerate(live.pop(va, ())):
                live["%s[%d]" % (va, k)] = v
        if flags & 0x08:
            vk = names[-1]
            for k, v in dict(live.pop(vk, {})).items():
                live["%s.%s" % (vk, k)] = v
        rec = {"fn": name, "depth": len(self.stack), "args": {n: snap(v) for n, v in live.items()},
               "_live": live}
        self.stack.append(rec)

    def _finish(self, code, key, val):
        if code not in self.codes or not self.stack:
            return
        rec = self.stack.pop()
        live = rec.pop("_live")
        rec["post"] = {n: snap(v) for n, v in live.items()}
        if key == "exc":
            rec["exc"] = type(val).__name__
            rec["exc_msg"] = str(val)[:200]
        else:
            rec["ret"] = snap(val)
        if self.hook:
            self.hook(rec)
        self.events.append(rec)

    def _ret(self, code, off, val):
        self._finish(code, "ret", val)

    def _unwind(self, code, off, exc):
        self._finish(code, "exc", exc)

    def __enter__(self):
        mon = sys.monitoring
        if mon.get_tool(TOOL) is not None:
            mon.free_tool_id(TOOL)
        mon.use_tool_id(TOOL, "mir_eval_verif")
        E = mon.events
        mon.register_callback(TOOL, E.PY_START, self._start)
        mon.register_callback(TOOL, E.PY_RETURN, self._ret)
        mon.register_callback(TOOL, E.PY_UNWIND, self._unwind)
        for code in self.codes:
            mon.set_local_events(TOOL, code, E.PY_START | E.PY_RETURN)
        mon.set_events(TOOL, E.PY_UNWIND)   # PY_UNWIND cannot be local
        self.active = True
        return self

    def __exit__(self, *a):
        mon = sys.monitoring
        for code in self.codes:
            mon.set_local_events(TOOL, code, 0)
        mon.set_events(TOOL, 0)
        mon.free_tool_id(TOOL)
        self.active = False
        return False


def public_functions(mod):
    out = []
    for n, f in vars(mod).items():
        if isinstance(f, types.FunctionType) and f.__module__ == mod.__name__:
            out.append(f)
    return out
