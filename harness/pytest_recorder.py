"""pytest plugin (-p harness.pytest_recorder): run the repository's OWN test modules with the recorder attached
to every function of every mir_eval module, and write one record per distinct public call
(argument digests before / after, call key, outcome digest) to $VERIF_TRACE_OUT.  C15 feeds the records to
Trace_Session: what the repository's tests execute is judged on every step (arguments never modified, the
same call always the same outcome), not only where a test happens to assert something."""
import hashlib
import json
import os
import sys

_state = {}


def pytest_sessionstart(session):
    import mir_eval  # the tree under test (PYTHONPATH)
    import importlib
    from harness.recorder import Recorder, public_functions
    from harness.props.C15 import MODS
    fns = []
    for m in MODS:      # not mir_eval.io: a loader's outcome depends on the file behind its argument, not on the argument value
        try:
            fns += public_functions(importlib.import_module("mir_eval." + m))
        except Exception:  # noqa
            pass
    records, seen = [], {}

    def on_event(e):
        from harness.props.C15 import digest
        short = e["fn"].split(".")[-1]
        if short.startswith("_"):
            return
        try:
            names = list(e["args"].keys())
            pre = [digest(e["args"][n]) for n in names]
            post = [digest(e["post"][n]) for n in names]
            hk = hashlib.md5(e["fn"].encode())
            for d in pre:
                hk.update(d)
            key = hk.digest()
            out = digest(("exc", e["exc"])) if "exc" in e else digest(("ret", e["ret"]))
        except Exception:  # noqa  (an argument that cannot be digested, e.g. an open file object, is skipped)
            return
        sig = (key, tuple(post), out)
        if sig in seen:
            records[seen[sig]]["n"] += 1
            return
        seen[sig] = len(records)
        records.append({"fn": e["fn"], "names": names, "pre": [d.hex() for d in pre], "post": [d.hex() for d in post],
                        "key": key.hex(), "out": out.hex(), "n": 1,
                        "desc": {n: repr(v)[:80] for n, v in list(e["args"].items())[:4]}})

    class _Sink(list):
        def append(self, x):
            pass
    rec = Recorder(fns, hook=on_event)
    rec.events = _Sink()
    rec.__enter__()
    _state.update(rec=rec, records=records)


def pytest_sessionfinish(session, exitstatus):
    rec = _state.get("rec")
    if rec is None:
        return
    rec.__exit__(None, None, None)
    out = os.environ.get("VERIF_TRACE_OUT")
    if out:
        with open(out, "w") as f:
            json.dump({"records": _state["records"], "exitstatus": int(exitstatus)}, f)
