"""Catalogue of mir_eval tasks for the cross-cutting checks (C01, C02, C03, C14, C15, ...):
seeded generators of VALID inputs on exact lattices (with degenerate shapes), the public metric
functions of each task with the arguments they take, and in-range keyword variants.

Everything here only *produces inputs and calls*; what is right or wrong is decided by the TLA+
specifications that consume the recorded behaviours."""
import numpy as np

SHAPES = ["random", "random", "random", "identical", "empty_est", "empty_ref", "both_empty", "single",
          "duplicates", "disjoint", "clustered"]

CHORDS = ["N", "C", "C:maj", "G:min", "A:7", "F:maj7", "D:min7", "E:dim", "Bb:aug", "F#:sus4", "C:maj/3",
          "G:7/b7", "X", "Db:hdim7", "A:min(9)", "C:maj6", "E:min/5", "D:9", "Ab:maj(*3)", "C:9(13)", "G:9",
          "E:min11(*b3)", "B:min11"]
KEYS = ["C major", "c minor", "G major", "A minor", "F# major", "Eb minor", "Bb major", "X", "D other",
        "g# minor", "Db major", "B other"]


def _sorted_lattice(rng, n, lo, hi, unit, dup=False):
    if n <= 0:
        return np.array([], dtype=float)
    if dup:
        vals = sorted(rng.choice(range(lo, hi)) for _ in range(n))
    else:
        vals = sorted(rng.sample(range(lo, hi), min(n, hi - lo)))
    return np.array(vals, dtype=float) * unit


# ---------------------------------------------------------------- per-task generators
def gen_events(rng, shape, lo=0, hi=120, unit=0.125, nmax=10):
    n = rng.randint(2, nmax)
    ref = _sorted_lattice(rng, n, lo, hi, unit)
    if shape == "identical":
        return ref, ref.copy()
    if shape == "empty_est":
        return ref, np.array([], dtype=float)
    if shape == "empty_ref":
        return np.array([], dtype=float), ref
    if shape == "both_empty":
        return np.array([], dtype=float), np.array([], dtype=float)
    if shape == "single":
        return ref[:1], _sorted_lattice(rng, 1, lo, hi, unit)
    if shape == "duplicates":
        return _sorted_lattice(rng, n, lo, lo + max(3, n // 2), unit, dup=True), \
            _sorted_lattice(rng, rng.randint(2, nmax), lo, lo + max(3, n // 2), unit, dup=True)
    if shape == "disjoint":
        return ref, _sorted_lattice(rng, rng.randint(1, nmax), hi + 40, hi + 100, unit)
    if shape == "clustered":
        c = rng.randint(lo, hi - 4)
        return _sorted_lattice(rng, min(n, 4), c, c + 4, unit), _sorted_lattice(rng, min(n, 4), c, c + 4, unit)
    est = np.array(sorted(np.clip(ref / unit + np.array([rng.choice([-2, -1, 0, 0, 1, 2]) for _ in ref]), lo, None)),
                   dtype=float) * unit
    k = rng.randint(0, 2)
    if k and len(est) > k:
        est = np.delete(est, rng.sample(range(len(est)), k))
    if rng.random() < 0.4:
        est = np.sort(np.append(est, _sorted_lattice(rng, 2, lo, hi, unit)))
    return ref, est


def gen_beats(rng, shape):
    # beats mostly above the 5 s trim time, a few below (evaluate trims them)
    ref, est = gen_events(rng, shape, lo=24, hi=200, unit=0.125, nmax=12)
    if shape == "regular" or (shape == "random" and rng.random() < 0.5):
        period = rng.choice([4, 5, 6, 8])
        n = rng.randint(6, 14)
        start = rng.randint(40, 60)
        ref = (start + period * np.arange(n)) * 0.125
        off = rng.choice([0, 0, 1, period // 2])
        est = ref + off * 0.125
        if rng.random() < 0.3:
            est = est[::2]
    return ref, est


def gen_segmentation(rng, shape, unit=0.25, labels="abcAB", tmax=None, start=0):
    tmax = tmax or rng.randint(6, 24)
    k = rng.randint(1, 6)
    if shape == "single":
        k = 1
    inner = sorted(rng.sample(range(start + 1, tmax), min(k - 1, tmax - start - 1))) if k > 1 else []
    b = [start] + inner + [tmax]
    iv = np.array([[b[i], b[i + 1]] for i in range(len(b) - 1)], dtype=float) * unit
    if shape == "duplicates":
        labs = [labels[0]] * len(iv)
    elif shape == "disjoint":
        labs = [labels[i % len(labels)] + str(i) for i in range(len(iv))]
    else:
        labs = [rng.choice(labels) for _ in iv]
    return iv, labs


def gen_segment_pair(rng, shape):
    ri, rl = gen_segmentation(rng, shape)
    tmax = int(round(ri[-1, 1] / 0.25))
    if shape == "identical":
        return ri, rl, ri.copy(), list(rl)
    ei, el = gen_segmentation(rng, "random" if shape not in ("single", "duplicates", "disjoint") else shape, tmax=tmax)
    if shape == "empty_est":
        return ri, rl, np.zeros((0, 2)), []
    if shape == "empty_ref":
        return np.zeros((0, 2)), [], ei, el
    if shape == "both_empty":
        return np.zeros((0, 2)), [], np.zeros((0, 2)), []
    return ri, rl, ei, el


def gen_chord_pair(rng, shape):
    start = rng.choice([0, 0, 2])
    ri, _ = gen_segmentation(rng, "random", start=start)
    rl = [rng.choice(CHORDS) for _ in ri]
    if shape == "identical":
        return ri, rl, ri.copy(), list(rl)
    tmax = int(round(ri[-1, 1] / 0.25))
    es = rng.choice([start, start, max(0, start - 1), start + 1])
    ee = tmax + rng.choice([0, 0, -1, 2])
    if ee <= es + 1:
        ee = es + 2
    ei, _ = gen_segmentation(rng, "random", tmax=ee, start=es)
    el = [rng.choice(CHORDS) if rng.random() < 0.6 else rng.choice(rl) for _ in ei]
    if shape == "duplicates":
        el = [rl[0]] * len(ei)
    if shape == "single":
        ri, rl = ri[:1], rl[:1]
        ei, el = np.array([[ri[0, 0], ri[0, 1]]]), [rng.choice(CHORDS)]
    return ri, rl, ei, el


def gen_melody(rng, shape):
    """uniform time bases; cents on a lattice.  When the estimate has its own time base it is linearly
    interpolated onto the reference's, so the lattice is then multiples of 200 cents (midpoints are
    multiples of 100: no interpolated pitch difference can sit on a tolerance threshold)."""
    hop = 1.0 / 64
    n = rng.randint(3, 14)
    t = np.arange(n) * hop
    own_tb = shape == "disjoint" or (shape == "random" and rng.random() < 0.3)
    lat = [0, 200, 400, 1200, 1400, 800] if own_tb else [0, 20, 60, 1200, 1220, 700]
    cents = [rng.choice(lat) for _ in range(n)]
    ref = np.array([0.0 if rng.random() < 0.25 else 110.0 * 2 ** (c / 1200.0) for c in cents])
    if shape in ("empty_ref", "both_empty"):
        ref = np.zeros(n)                      # no voiced frame in the reference
    if shape == "identical":
        return t, ref, t.copy(), ref.copy()
    est = np.array([0.0 if rng.random() < 0.2 else
                    (-1 if rng.random() < 0.15 else 1) * 110.0 * 2 ** ((c + rng.choice([0, 0, 40, 1200, 300])) / 1200.0)
                    for c in cents])
    if shape in ("empty_est", "both_empty"):
        est = np.zeros(n)
    te = t.copy()
    if own_tb:
        m = rng.randint(2, 16)                 # a different (still uniform) time base
        te = np.arange(m) * hop * 2
        est = np.array([0.0 if rng.random() < 0.2 else 110.0 * 2 ** (rng.choice(lat) / 1200.0) for _ in range(m)])
    if shape == "single":
        return t[:2], ref[:2], te[:2], est[:2]
    return t, ref, te, est


def gen_multipitch(rng, shape):
    n = rng.randint(1, 6)
    t = np.arange(n) * 0.25

    def frame(k):
        return np.array(sorted(440.0 * 2 ** (rng.randint(-24, 30) / 24.0) for _ in range(k)))
    rf = [frame(rng.randint(0, 3)) for _ in range(n)]
    if shape == "identical":
        return t, rf, t.copy(), [f.copy() for f in rf]
    ef = [frame(rng.randint(0, 3)) if rng.random() < 0.5 else
          (f * 2 ** (rng.choice([0, 0, 1, 24, -24]) / 24.0) if len(f) else f) for f in rf]
    ef = [np.clip(f, 20.0, 5000.0) for f in ef]
    te = t.copy()
    if shape == "empty_est":
        ef = [np.array([]) for _ in rf]
    if shape in ("empty_ref", "both_empty"):
        rf = [np.array([]) for _ in rf]
        if shape == "both_empty":
            ef = [np.array([]) for _ in rf]
    if shape == "disjoint" or (shape == "random" and rng.random() < 0.3):
        m = rng.randint(1, 5)
        te = 0.0625 + np.arange(m) * 0.375     # never at a nearest-neighbour tie with the reference grid
        ef = [frame(rng.randint(0, 3)) for _ in range(m)]
    if shape == "duplicates":
        rf = [np.array([440.0, 440.0]) for _ in rf]
    if shape in ("crowded", "crowded_ref"):
        # several pitches of one side inside the window of a SINGLE pitch of the other side (a matching may use it once)
        te = t.copy()
        rf, ef = [], []
        flip = shape == "crowded_ref"           # one orientation per annotation pair, so that totals cannot cancel across frames
        for _ in range(n):
            c = 110.0 * 2 ** (rng.randint(0, 36) / 12.0)
            one = np.array([c] if rng.random() < 0.7 else [c, c * 2 ** (7 / 12.0)])
            many = np.array(sorted(c * 2 ** (u / 1200.0) for u in rng.sample([-40, -25, -10, 0, 10, 20, 35, 45], rng.randint(2, 3))))
            a_, b_ = (many, one) if flip else (one, many)
            rf.append(a_); ef.append(b_)
    if shape == "octaves":
        # a pitch together with its exact octave(s) in one frame, in the reference AND in the estimate: the
        # chroma-folded frame then holds one pitch class several times (seeded change C07r6-B)
        def oct_frame():
            base = 110.0 * 2 ** (rng.randint(0, 11) / 12.0)
            fr = [base * 2 ** o for o in sorted(rng.sample([0, 1, 2, 3], rng.randint(2, 3)))]
            if rng.random() < 0.5:
                fr.append(base * 2 ** (rng.choice([3, 4, 7]) / 12.0))
            return np.array(sorted(fr))
        rf = [oct_frame() for _ in range(n)]
        te = t.copy()
        ef = [f.copy() if rng.random() < 0.7 else f[:-1].copy() for f in rf]
    return t, rf, te, ef


def gen_notes(rng, shape, velocity=False):
    n = rng.randint(1, 7)

    def notes(k):
        on = [rng.randint(0, 30) for _ in range(k)]
        du = [rng.randint(1, 8) for _ in range(k)]
        iv = np.array([[o / 16.0, (o + d) / 16.0] for o, d in zip(on, du)], dtype=float).reshape(-1, 2)
        p = np.array([440.0 * 2 ** (rng.choice([0, 40, 80, 1200, -500]) / 1200.0) for _ in range(k)])
        v = np.array([float(rng.choice([10, 40, 64, 90, 127])) for _ in range(k)])
        return iv, p, v
    ri, rp, rv = notes(n)
    if shape == "identical":
        ei, ep, evv = ri.copy(), rp.copy(), rv.copy()
    elif shape == "duplicates":
        ri, rp, rv = np.repeat(ri[:1], 3, axis=0), np.repeat(rp[:1], 3), np.repeat(rv[:1], 3)
        ei, ep, evv = np.repeat(ri[:1], 2, axis=0), np.repeat(rp[:1], 2), np.repeat(rv[:1], 2)
    elif shape == "disjoint":
        ei, ep, evv = notes(rng.randint(1, 5))
        ei = ei + 10.0
    else:
        ei = ri + np.array([[rng.choice([-1, 0, 0, 1]) / 16.0, rng.choice([0, 0, 2]) / 16.0] for _ in ri]).reshape(-1, 2)
        ei = np.abs(ei)
        ei[:, 1] = np.maximum(ei[:, 1], ei[:, 0] + 1 / 16.0)
        ep = rp * np.array([2 ** (rng.choice([0, 0, 40, 80]) / 1200.0) for _ in rp])
        evv = np.clip(rv + np.array([rng.choice([0, 5, -20]) for _ in rv]), 0, 127)
        perm = list(range(len(ei)))
        rng.shuffle(perm)
        ei, ep, evv = ei[perm], ep[perm], evv[perm]
    z2, z1 = np.zeros((0, 2)), np.array([], dtype=float)
    if shape in ("empty_est", "both_empty"):
        ei, ep, evv = z2, z1, z1
    if shape in ("empty_ref", "both_empty"):
        ri, rp, rv = z2, z1, z1
    if shape == "single":
        ri, rp, rv, ei, ep, evv = ri[:1], rp[:1], rv[:1], ei[:1], ep[:1], evv[:1]
    if velocity:
        return ri, rp, rv, ei, ep, evv
    return ri, rp, ei, ep


def gen_tempo(rng, shape):
    a = float(rng.choice([60, 90, 100, 120]))
    b = a * rng.choice([2.0, 3.0, 1.5])
    ref = np.array([a, b])
    w = rng.choice([0.0, 0.25, 0.5, 0.75, 1.0])
    if shape == "identical":
        return ref, w, ref.copy()
    est = np.array([a * rng.choice([1.0, 1.0625, 2.0, 0.5]), b * rng.choice([1.0, 0.9375, 1.25])])
    if shape == "single":
        ref = np.array([a, 0.0])
    if shape in ("empty_est", "both_empty"):
        est = np.array([0.0, 0.0])
    if shape == "clustered":                    # both estimates close to the same reference tempo
        t = rng.choice([a, b])
        est = np.array([t * rng.choice([1.0, 0.98, 1.03]), t * rng.choice([1.0, 1.02, 0.96])])
        # ... and that tempo carries most of the weight (two hits on it must still count once)
        w = rng.choice([0.75, 1.0]) if t == a else rng.choice([0.0, 0.25])
    if rng.random() < 0.3:
        est = est[::-1].copy()
    return ref, w, est


def gen_key(rng, shape):
    r = rng.choice(KEYS)
    if shape == "identical":
        return r, r
    return r, rng.choice(KEYS)


def gen_patterns(rng, shape):
    def occ(base, shift, drop=False):
        pts = [(o + shift, m) for o, m in base]
        if drop and len(pts) > 1:
            pts = pts[:-1]
        return pts

    def pattern():
        base = sorted({(float(rng.randint(0, 12)) * 0.5, float(rng.randint(60, 64))) for _ in range(rng.randint(1, 4))})
        return [occ(base, 8.0 * k, drop=(rng.random() < 0.2)) for k in range(rng.randint(1, 3))]
    ref = [pattern() for _ in range(rng.randint(1, 3))]
    if rng.random() < 0.3:                         # a unison doubling: the same (onset, midi) listed twice in an occurrence
        occ0 = ref[0][rng.randrange(len(ref[0]))]
        occ0.insert(rng.randrange(len(occ0) + 1), occ0[rng.randrange(len(occ0))])
    if shape == "identical":
        return ref, [[list(o) for o in p] for p in ref]
    if shape == "unison":
        # reference occurrences that list one note twice; the estimate has the same notes once
        est = [[sorted(set(o)) for o in p] for p in ref]
        ref = [[list(o) + [o[rng.randrange(len(o))]] for o in p] for p in ref]
        return ref, est
    est = []
    for p in ref:
        if rng.random() < 0.6:
            est.append([occ(o, rng.choice([0.0, 0.0, 4.0]), drop=(rng.random() < 0.3)) for o in p])
    est += [pattern() for _ in range(rng.randint(0, 2))]
    if shape == "duplicates" and ref:
        ref = ref + [[list(o) for o in ref[0]]]
        est = [[list(o) for o in ref[0]]]
    if shape in ("empty_est", "both_empty") or not est:
        est = [] if shape in ("empty_est", "both_empty") else [pattern()]
    if shape in ("empty_ref", "both_empty"):
        ref = []
    rng.shuffle(est)
    return ref, est


def gen_hierarchy(rng, shape):
    unit = 0.25
    tmax = rng.randint(6, 20)

    def hier(nl, nested=True):
        levels, labs, prev = [], [], [0, tmax]
        for lv in range(nl):
            extra = sorted(rng.sample(range(1, tmax), min(rng.randint(0 if lv else 0, 3), tmax - 1)))
            b = sorted(set(prev) | set(extra)) if nested else sorted({0, tmax} | set(extra))
            prev = b
            iv = np.array([[b[i], b[i + 1]] for i in range(len(b) - 1)], dtype=float) * unit
            levels.append(iv)
            labs.append([rng.choice("abcAB") for _ in iv])
        return levels, labs
    ri, rl = hier(rng.randint(1, 3), nested=rng.random() < 0.7)
    if shape == "identical":
        return ri, rl, [x.copy() for x in ri], [list(x) for x in rl]
    ei, el = hier(rng.randint(1, 3), nested=rng.random() < 0.7)
    if shape == "single":
        ri, rl = ri[:1], rl[:1]
    return ri, rl, ei, el


def gen_alignment(rng, shape):
    n = rng.randint(2, 9)
    ref = _sorted_lattice(rng, n, 0, 80, 0.125, dup=(shape == "duplicates"))
    if shape == "identical":
        return ref, ref.copy()
    est = np.sort(np.abs(ref + np.array([rng.choice([-4, -1, 0, 0, 1, 2, 8]) for _ in ref]) * 0.125))
    return ref, est


def gen_sources(rng, shape):
    nsrc = rng.choice([1, 2, 2, 3])
    L = 2 * nsrc * 512 + rng.choice([0, 64, 400])
    g = np.random.RandomState(rng.randint(0, 10 ** 6))
    ref = g.randn(nsrc, L)
    if shape == "identical":
        return ref, ref.copy()
    mix = np.eye(nsrc) + 0.3 * g.randn(nsrc, nsrc)
    est = mix.dot(ref) + 0.05 * g.randn(nsrc, L)
    return ref, est


# ---------------------------------------------------------------- the catalogue
class Task:
    def __init__(self, name, gen, metrics, kw_pool=None, shapes=None):
        self.name, self.gen, self.metrics = name, gen, metrics
        self.kw_pool = kw_pool or {}
        self.shapes = shapes or SHAPES


def catalogue(me):
    """me: the imported mir_eval package.  Each metric: (qualified name, function, argument selector
    taking the evaluate() argument tuple, list of in-range kwargs variants)."""
    ident = lambda a: a  # noqa
    T = {}
    b = me.beat
    T["beat"] = Task("beat", gen_beats, [
        ("beat.f_measure", b.f_measure, ident, [{}, {"f_measure_threshold": 0.125}]),
        ("beat.cemgil", b.cemgil, ident, [{}, {"cemgil_sigma": 0.0625}]),
        ("beat.goto", b.goto, ident, [{}, {"goto_threshold": 0.25}]),
        ("beat.p_score", b.p_score, ident, [{}, {"p_score_threshold": 0.25}]),
        ("beat.continuity", b.continuity, ident, [{}, {"continuity_phase_threshold": 0.25}]),
        ("beat.information_gain", b.information_gain, ident, [{}, {"bins": 21}]),
    ], kw_pool={"f_measure_threshold": 0.125, "cemgil_sigma": 0.0625, "goto_threshold": 0.25, "goto_mu": 0.25,
                "goto_sigma": 0.25, "p_score_threshold": 0.25, "continuity_phase_threshold": 0.25,
                "continuity_period_threshold": 0.25, "bins": 21, "min_beat_time": 4.0})
    T["onset"] = Task("onset", gen_events, [
        ("onset.f_measure", me.onset.f_measure, ident, [{}, {"window": 0.125}, {"window": 0.25}]),
    ], kw_pool={"window": 0.125})
    s = me.segment
    bnd = lambda a: (a[0], a[2])  # noqa
    T["segment"] = Task("segment", gen_segment_pair, [
        ("segment.detection", s.detection, bnd, [{}, {"window": 0.25, "trim": True}, {"window": 3.0, "beta": 2.0}]),
        ("segment.deviation", s.deviation, bnd, [{}, {"trim": True}]),
        ("segment.pairwise", s.pairwise, ident, [{"frame_size": 0.25}, {"frame_size": 0.5, "beta": 2.0}]),
        ("segment.rand_index", s.rand_index, ident, [{"frame_size": 0.25}]),
        ("segment.ari", s.ari, ident, [{"frame_size": 0.25}]),
        ("segment.mutual_information", s.mutual_information, ident, [{"frame_size": 0.25}]),
        ("segment.nce", s.nce, ident, [{"frame_size": 0.25}, {"frame_size": 0.5, "marginal": True, "beta": 0.5}]),
        ("segment.vmeasure", s.vmeasure, ident, [{"frame_size": 0.25}, {"frame_size": 0.5, "beta": 2.0}]),
    ], kw_pool={"frame_size": 0.25, "beta": 2.0, "trim": True, "marginal": True})
    c = me.chord
    def labs(a):
        k = min(len(a[1]), len(a[3]))
        return (list(a[1][:k]), list(a[3][:k]))
    segs = lambda a: (a[0], a[2])  # noqa
    T["chord"] = Task("chord", gen_chord_pair,
                      [("chord." + n, getattr(c, n), labs, [{}]) for n in
                       ("thirds", "thirds_inv", "triads", "triads_inv", "tetrads", "tetrads_inv", "root", "mirex",
                        "majmin", "majmin_inv", "sevenths", "sevenths_inv")] +
                      [("chord.merge_chord_intervals", c.merge_chord_intervals, lambda a: (a[0], a[1]), [{}])],
                      kw_pool={}, shapes=["random", "random", "identical", "single", "duplicates"])
    m = me.melody
    cv = lambda a: m.to_cent_voicing(*[np.array(x) for x in a])  # noqa
    vo = lambda a: (cv(a)[0], cv(a)[2])  # noqa
    T["melody"] = Task("melody", gen_melody, [
        ("melody.to_cent_voicing", m.to_cent_voicing, ident, [{}, {"hop": 1.0 / 64}, {"kind": "zero", "base_frequency": 20.0}]),
        ("melody.voicing_measures", m.voicing_measures, vo, [{}]),
        ("melody.raw_pitch_accuracy", m.raw_pitch_accuracy, cv, [{}, {"cent_tolerance": 30}]),
        ("melody.raw_chroma_accuracy", m.raw_chroma_accuracy, cv, [{}, {"cent_tolerance": 30}]),
        ("melody.overall_accuracy", m.overall_accuracy, cv, [{}, {"cent_tolerance": 30}]),
    ], kw_pool={"cent_tolerance": 60, "base_frequency": 20.0,
                                                          "hop": 1.0 / 64, "kind": "zero"})
    mp = me.multipitch
    T["multipitch"] = Task("multipitch", gen_multipitch, [
        ("multipitch.metrics", mp.metrics, ident, [{}, {"window": 0.25}, {"window": 1.0}]),
    ], kw_pool={"window": 0.25}, shapes=["crowded", "crowded_ref", "octaves"] + SHAPES)
    tr = me.transcription
    ivs = lambda a: (a[0], a[2])  # noqa
    T["transcription"] = Task("transcription", gen_notes, [
        ("transcription.precision_recall_f1_overlap", tr.precision_recall_f1_overlap, ident,
         [{}, {"offset_ratio": None}, {"onset_tolerance": 0.0625, "strict": True, "beta": 2.0}]),
        ("transcription.onset_precision_recall_f1", tr.onset_precision_recall_f1, ivs, [{}, {"onset_tolerance": 0.0625, "strict": True}]),
        ("transcription.offset_precision_recall_f1", tr.offset_precision_recall_f1, ivs, [{}, {"offset_ratio": 0.5}]),
    ], kw_pool={"onset_tolerance": 0.0625, "pitch_tolerance": 60.0, "offset_ratio": 0.5, "offset_min_tolerance": 0.0625,
                "strict": True, "beta": 2.0})
    tv = me.transcription_velocity
    T["transcription_velocity"] = Task("transcription_velocity", lambda r, sh: gen_notes(r, sh, velocity=True), [
        ("transcription_velocity.precision_recall_f1_overlap", tv.precision_recall_f1_overlap, ident,
         [{}, {"offset_ratio": None, "velocity_tolerance": 0.25}]),
    ], kw_pool={"onset_tolerance": 0.0625, "pitch_tolerance": 60.0, "offset_ratio": 0.5, "offset_min_tolerance": 0.0625,
                "strict": True, "beta": 2.0, "velocity_tolerance": 0.25})
    T["tempo"] = Task("tempo", gen_tempo, [
        ("tempo.detection", me.tempo.detection, ident, [{}, {"tol": 0.125}, {"tol": 0.0625}]),
    ], kw_pool={"tol": 0.125}, shapes=["random", "random", "identical", "single", "empty_est", "clustered"])
    T["key"] = Task("key", gen_key, [
        ("key.weighted_score", me.key.weighted_score, ident, [{}]),
    ], shapes=["random", "identical"])
    p = me.pattern
    T["pattern"] = Task("pattern", gen_patterns, [
        ("pattern.standard_FPR", p.standard_FPR, ident, [{}, {"tol": 0.25}]),
        ("pattern.establishment_FPR", p.establishment_FPR, ident, [{}]),
        ("pattern.occurrence_FPR", p.occurrence_FPR, ident, [{}, {"thres": 0.5}]),
        ("pattern.three_layer_FPR", p.three_layer_FPR, ident, [{}]),
        ("pattern.first_n_three_layer_P", p.first_n_three_layer_P, ident, [{}, {"n": 1}]),
        ("pattern.first_n_target_proportion_R", p.first_n_target_proportion_R, ident, [{}, {"n": 1}]),
    ], kw_pool={"tol": 0.25, "n": 1, "similarity_metric": "cardinality_score"},
        shapes=["random", "random", "identical", "duplicates", "unison", "empty_est", "empty_ref", "both_empty"])
    h = me.hierarchy
    hiv = lambda a: (a[0], a[2])  # noqa
    T["hierarchy"] = Task("hierarchy", gen_hierarchy, [
        ("hierarchy.tmeasure", h.tmeasure, hiv, [{"frame_size": 0.25}, {"frame_size": 0.25, "window": 1.0, "transitive": True},
                                                  {"frame_size": 0.5, "window": None, "beta": 2.0}]),
        ("hierarchy.lmeasure", h.lmeasure, ident, [{"frame_size": 0.25}, {"frame_size": 0.5, "beta": 2.0}]),
    ], kw_pool={"frame_size": 0.25, "window": 2.0, "beta": 2.0}, shapes=["random", "random", "identical", "single"])
    al = me.alignment
    T["alignment"] = Task("alignment", gen_alignment, [
        ("alignment.absolute_error", al.absolute_error, ident, [{}]),
        ("alignment.percentage_correct", al.percentage_correct, ident, [{}, {"window": 0.125}]),
        ("alignment.percentage_correct_segments", al.percentage_correct_segments, ident, [{}, {"duration": 12.0}]),
        ("alignment.karaoke_perceptual_metric", al.karaoke_perceptual_metric, ident, [{}]),
    ], kw_pool={"window": 0.125, "duration": 12.0}, shapes=["random", "random", "identical", "duplicates"])
    for t in T.values():
        t.evaluate = getattr(me, t.name).evaluate
    return T
