"""The repository's own annotation fixtures (tests/data/<task>/ref*, est*) as a third source of
inputs, next to TLC's rows and the seeded generators: real-world shapes (hundreds of beats, thousands
of melody frames, MIREX chord vocabularies) that the models are too small for.  They are read from
the tree under test with the library's own loaders (C20 verifies those), never from /verif.
The pinned test-suite compares most of them with recorded outputs only under `xfail`, so nothing in
the repository currently asserts the properties on them.

pairs(me, task, crop) -> [(name, args tuple in evaluate() order)]; crop = keep only the first `crop`
seconds / items where that keeps the annotation valid (used where TLC certifies a recorded matching)."""
import glob
import os

import numpy as np

from .common import REPO


def _files(task, pat):
    return sorted(glob.glob(os.path.join(REPO, "tests", "data", task, pat)))


def _io(me):
    import importlib
    return importlib.import_module("mir_eval.io")


def pairs(me, task, limit=None):
    io = _io(me)
    out = []
    d = task
    if task in ("beat", "onset", "alignment"):
        for r, e in zip(_files(d, "ref*.txt"), _files(d, "est*.txt")):
            out.append((os.path.basename(r), (io.load_events(r), io.load_events(e))))
    elif task in ("segment", "chord"):
        for r, e in zip(_files(d, "ref*.lab"), _files(d, "est*.lab")):
            ri, rl = io.load_labeled_intervals(r)
            ei, el = io.load_labeled_intervals(e)
            out.append((os.path.basename(r), (ri, rl, ei, el)))
    elif task == "melody":
        for r, e in zip(_files(d, "ref*.txt"), _files(d, "est*.txt")):
            rt, rf = io.load_time_series(r)
            et, ef = io.load_time_series(e)
            out.append((os.path.basename(r), (rt, rf, et, ef)))
    elif task == "multipitch":
        for r, e in zip(_files(d, "ref*.txt"), _files(d, "est*.txt")):
            rt, rf = io.load_ragged_time_series(r)
            et, ef = io.load_ragged_time_series(e)
            out.append((os.path.basename(r), (rt, rf, et, ef)))
    elif task == "transcription":
        for r, e in zip(_files(d, "ref*.txt"), _files(d, "est*.txt")):
            ri, rp = io.load_valued_intervals(r)
            ei, ep = io.load_valued_intervals(e)
            out.append((os.path.basename(r), (ri, rp, ei, ep)))
    elif task == "transcription_velocity":
        for r, e in zip(_files(d, "ref*.txt"), _files(d, "est*.txt")):
            a = np.loadtxt(r).reshape(-1, 4)
            b = np.loadtxt(e).reshape(-1, 4)
            out.append((os.path.basename(r), (a[:, :2], a[:, 2], a[:, 3], b[:, :2], b[:, 2], b[:, 3])))
    elif task == "tempo":
        for r, e in zip(_files(d, "ref*.lab"), _files(d, "est*.lab")):
            rt, rw = io.load_tempo(r)
            et, _ = io.load_tempo(e)
            out.append((os.path.basename(r), (rt, rw, et)))
    elif task == "key":
        for r, e in zip(_files(d, "ref*.txt"), _files(d, "est*.txt")):
            out.append((os.path.basename(r), (io.load_key(r), io.load_key(e))))
    elif task == "pattern":
        for r, e in zip(_files(d, "ref*.txt"), _files(d, "est*.txt")):
            out.append((os.path.basename(r), (io.load_patterns(r), io.load_patterns(e))))
    elif task == "hierarchy":
        rh = [io.load_labeled_intervals(f) for f in _files(d, "ref*.lab")]
        eh = [io.load_labeled_intervals(f) for f in _files(d, "est*.lab")]
        if rh and eh:
            out.append(("hierarchy", ([x[0] for x in rh], [x[1] for x in rh], [x[0] for x in eh], [x[1] for x in eh])))
    return out[:limit] if limit else out


TASKS = ["beat", "onset", "alignment", "segment", "chord", "melody", "multipitch", "transcription",
         "transcription_velocity", "tempo", "key", "pattern", "hierarchy"]


def swap(task, args):
    """(reference, estimate) exchanged - only where both sides have the same form"""
    a = list(args)
    if task == "tempo":
        return None
    h = len(a) // 2
    return tuple(a[h:] + a[:h])
