"""Run TLC on a module of /verif/spec and parse what it printed.

Everything TLC tells us comes back through stdout:
  * rows exported by the spec:    <<"ROW", ...>>   (PrintT from an always-true invariant)
  * verdicts of trace validation: <<"REJECT", tid, "clause">>, <<"ACCEPT", n>>
  * the final state count line
Nothing is cached between runs; the metadir is a fresh temporary directory that is removed.
"""
import json
import os
import re
import shutil
import subprocess
import tempfile
import time

VERIF = os.path.dirname(os.path.dirname(os.path.abspath(__file__)))
SPEC = os.path.join(VERIF, "spec")
JAR = "/opt/veriftools/tla/tla2tools.jar:/opt/veriftools/tla/CommunityModules-deps.jar"


class TLCError(Exception):
    pass


def scratch_dir(prefix="verif_"):
    base = os.environ.get("VERIF_SCRATCH") or os.environ.get("TMPDIR") or "/tmp"
    os.makedirs(base, exist_ok=True)
    return tempfile.mkdtemp(prefix=prefix, dir=base)


_STATES = re.compile(r"^(\d+) states generated, (\d+) distinct states found, (\d+) states left on queue", re.M)
_SIMSTATES = re.compile(r"(\d+) states checked", re.M)


def _split_top(s):
    """split a TLC tuple body on top-level commas (bracket matching, strings honoured)"""
    out, depth, cur, i, instr = [], 0, [], 0, False
    while i < len(s):
        c = s[i]
        if instr:
            cur.append(c)
            if c == "\\":
                cur.append(s[i + 1]); i += 1
            elif c == '"':
                instr = False
        elif c == '"':
            instr = True; cur.append(c)
        elif c in "<([{":
            depth += 1; cur.append(c)
        elif c in ">)]}":
            depth -= 1; cur.append(c)
        elif c == "," and depth == 0:
            out.append("".join(cur).strip()); cur = []
        else:
            cur.append(c)
        i += 1
    if cur:
        out.append("".join(cur).strip())
    return out


def parse_value(s):
    """Parse a printed TLC value: ints, strings, TRUE/FALSE, <<tuples>>, {sets}, [records]."""
    s = s.strip()
    if s.startswith("<<") and s.endswith(">>"):
        body = s[2:-2].strip()
        return [parse_value(x) for x in _split_top(body)] if body else []
    if s.startswith("{") and s.endswith("}"):
        body = s[1:-1].strip()
        return [parse_value(x) for x in _split_top(body)] if body else []
    if s.startswith("[") and s.endswith("]"):
        body = s[1:-1].strip()
        rec = {}
        for item in _split_top(body):
            k, v = item.split("|->", 1)
            rec[k.strip()] = parse_value(v)
        return rec
    if s.startswith('"'):
        return json.loads(s)
    if s == "TRUE":
        return True
    if s == "FALSE":
        return False
    if re.fullmatch(r"-?\d+", s):
        return int(s)
    # function printed as (a :> b @@ c :> d)
    if s.startswith("(") and s.endswith(")") and ":>" in s:
        d = {}
        for item in re.split(r"@@", s[1:-1]):
            k, v = item.split(":>", 1)
            d[json.dumps(parse_value(k))] = parse_value(v)
        return d
    return s


def run(module, cfg=None, workers=16, env=None, timeout=3600, simulate=None, depth=None,
        seed=None, extra=None, want=("ROW",), deadlock=False, heap="4g", raw_rows=False):
    """Run TLC; return dict(rows={tag:[...]}, generated, distinct, queue, wall_s, log_tail).

    Raises TLCError on any TLC-level failure (parse error, evaluation error, invariant
    violation, leftover queue) -- a broken run never reads as a pass."""
    cfg = cfg or module
    meta = scratch_dir("tlcmeta_")
    cmd = ["java", "-XX:+UseParallelGC", "-Xmx" + heap, "-cp", JAR, "tlc2.TLC",
           "-workers", str(workers), "-metadir", meta, "-noGenerateSpecTE",
           "-config", cfg + ".cfg"]
    if not deadlock:
        cmd.append("-deadlock")  # -deadlock = do NOT check for deadlock
    if simulate:
        cmd += ["-simulate", simulate]
        if depth:
            cmd += ["-depth", str(depth)]
        if seed is not None:
            cmd += ["-seed", str(seed)]
    if extra:
        cmd += list(extra)
    cmd.append(module + ".tla")
    e = dict(os.environ)
    e.pop("JAVA_TOOL_OPTIONS", None)
    if env:
        e.update({k: str(v) for k, v in env.items()})
    t0 = time.time()
    try:
        p = subprocess.run(cmd, cwd=SPEC, env=e, stdout=subprocess.PIPE, stderr=subprocess.STDOUT,
                           timeout=timeout, text=True)
    except subprocess.TimeoutExpired as ex:
        shutil.rmtree(meta, ignore_errors=True)
        raise TLCError("TLC timeout after %ss on %s" % (timeout, module)) from ex
    finally:
        shutil.rmtree(meta, ignore_errors=True)
        # TLC leaves <module>_TTrace files / states dirs only when asked; nothing else to clean
    wall = time.time() - t0
    out = p.stdout
    rows = {w: [] for w in want}
    other = []
    for line in out.splitlines():
        # rows are printed as ONE TLA+ string  "TAG<json>"  (strings are never wrapped by TLC's
        # pretty printer, and a single println is atomic across workers)
        if line.startswith('"'):
            m = re.match(r'"([A-Z_]+)', line)
            if m and m.group(1) in rows:
                try:
                    body = json.loads(line)[len(m.group(1)):]
                    rows[m.group(1)].append(body if raw_rows else json.loads(body))
                    continue
                except ValueError as ex:
                    raise TLCError("unparsable row from TLC: %r" % line[:300]) from ex
        other.append(line)
    log = "\n".join(other)
    res = {"rows": rows, "wall_s": wall, "cmd": " ".join(cmd), "log_tail": log[-3000:]}
    m = _STATES.search(log)
    if m:
        res["generated"], res["distinct"], res["queue"] = map(int, m.groups())
    elif simulate:
        m2 = _SIMSTATES.search(log)
        res["generated"] = res["distinct"] = int(m2.group(1)) if m2 else 0
        res["queue"] = 0
    bad = ("Error:" in log) or ("is violated" in log) or ("Exception" in log and "TLC" in log)
    if bad or p.returncode not in (0,) or (not m and not simulate):
        raise TLCError("TLC failed on %s (rc=%s):\n%s" % (module, p.returncode, log[-4000:]))
    if res.get("queue"):
        raise TLCError("TLC left states on queue: %s" % m.group(0))
    return res


def sany(module):
    p = subprocess.run(["java", "-cp", JAR, "tla2sany.SANY", module + ".tla"], cwd=SPEC,
                       stdout=subprocess.PIPE, stderr=subprocess.STDOUT, text=True)
    ok = p.returncode == 0 and "Semantic errors" not in p.stdout and "Parse Error" not in p.stdout \
        and "*** Errors" not in p.stdout and "Fatal errors" not in p.stdout
    return ok, p.stdout
