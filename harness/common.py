"""Shared plumbing of the checks: importing mir_eval from the tree under test, the violation /
known-finding protocol, evidence files, rationals."""
import hashlib
import json
import math
import os
import sys
import time
import warnings
from fractions import Fraction

VERIF = os.path.dirname(os.path.dirname(os.path.abspath(__file__)))
REPO = os.environ.get("MIR_EVAL_REPO", "/repo")


def import_mir_eval():
    """Import mir_eval from the working tree under test (never a cached or installed copy)."""
    if sys.path[0] != REPO:
        sys.path.insert(0, REPO)
    for k in [k for k in sys.modules if k == "mir_eval" or k.startswith("mir_eval.")]:
        del sys.modules[k]
    warnings.filterwarnings("ignore")
    import mir_eval
    import mir_eval.alignment, mir_eval.beat, mir_eval.chord, mir_eval.hierarchy, mir_eval.io  # noqa
    import mir_eval.key, mir_eval.melody, mir_eval.multipitch, mir_eval.onset, mir_eval.pattern  # noqa
    import mir_eval.segment, mir_eval.separation, mir_eval.tempo, mir_eval.transcription  # noqa
    import mir_eval.transcription_velocity, mir_eval.util, mir_eval.sonify  # noqa
    got = os.path.dirname(os.path.dirname(os.path.abspath(mir_eval.__file__)))
    if os.path.realpath(got) != os.path.realpath(REPO):
        raise RuntimeError("mir_eval imported from %s, expected %s" % (got, REPO))
    return mir_eval


class Machinery(Exception):
    """the check itself is broken (exit 2) -- never reads as a pass"""


# ----------------------------------------------------------------------------- findings
def load_findings():
    path = os.path.join(VERIF, "known_findings.json")
    if not os.path.exists(path):
        return {"known": [], "fixed": []}
    with open(path) as f:
        return json.load(f)


class Reporter:
    """Collects violations; decides known-finding vs VIOLATION; writes replay files."""

    def __init__(self, prop):
        self.prop = prop
        self.findings = [k for k in load_findings().get("known", []) if k["property"] == prop]
        self.violations = []          # unlisted
        self.known_hits = {}          # finding id -> count
        self.known_example = {}
        self.class_counts = {}

    def _match(self, fn, tag):
        for k in self.findings:
            if k["function"] == fn and k["class"] == tag:
                return k
        return None

    def violation(self, fn, tag, detail):
        """fn: qualified public function; tag: spec-computed class tag of the input;
        detail: JSON-serialisable dict sufficient to replay."""
        k = self._match(fn, tag)
        if k is not None:
            kid = k["id"]
            self.known_hits[kid] = self.known_hits.get(kid, 0) + 1
            self.known_example.setdefault(kid, detail)
            return False
        self.class_counts[(fn, tag)] = self.class_counts.get((fn, tag), 0) + 1
        if len(self.violations) < 200 or self.class_counts[(fn, tag)] <= 3:
            self.violations.append({"function": fn, "class": tag, "detail": detail})
        else:
            self.violations.append(None)
        return True

    def finish(self):
        """print KNOWN-FINDING / VIOLATION lines; return exit code"""
        for k in self.findings:
            # every listed finding of this property is reported on every run, with the number of times this run's inputs
            # reproduced it (0 = the seeded inputs of this run did not hit its input class; the finding stays listed)
            print("KNOWN-FINDING: property=%s %s [%s class=%s, reproduced %d times in this run]" % (
                self.prop, k["what"], k["function"], k["class"], self.known_hits.get(k["id"], 0)))
        real = [v for v in self.violations if v is not None]
        if not self.violations:
            return 0
        d = os.path.join(os.environ.get("VERIF_REPLAY_DIR") or os.path.join(VERIF, "replays"), self.prop)
        os.makedirs(d, exist_ok=True)
        seen = set()
        for v in real[:25]:
            key = (v["function"], v["class"])
            if key in seen:
                continue
            seen.add(key)
            blob = json.dumps(v, sort_keys=True, default=str)
            path = os.path.join(d, hashlib.sha1(blob.encode()).hexdigest()[:16] + ".json")
            with open(path, "w") as f:
                f.write(blob)
            print("VIOLATION property=%s replay=%s" % (self.prop, path))
            print("  function=%s class=%s detail=%s" % (v["function"], v["class"], blob[:600]))
        for (f, c), n in sorted(self.class_counts.items()):
            print("  class-count %s %s : %d" % (f, c, n))
        print("  (%d violating cases in total)" % len(self.violations))
        return 1


# ----------------------------------------------------------------------------- evidence
class Evidence:
    def __init__(self, prop, tier, seed, level="model_checking"):
        self.t0 = time.time()
        self.d = {"property_id": prop, "tier": tier, "seed": int(seed), "level": level,
                  "coverage": {"states": 0, "transitions": 0, "traces_validated_against_impl": 0,
                               "evaluations": 0, "distinct_nontrivial": 0, "samples": [],
                               "rule": "", "tlc_runs": []},
                  "assumptions": [], "wall_s": 0.0, "violations": 0}
        self._distinct = set()

    @property
    def cov(self):
        return self.d["coverage"]

    def tlc(self, name, res, note=""):
        self.cov["states"] += int(res.get("distinct", 0))
        self.cov["transitions"] += int(res.get("generated", 0))
        self.cov["tlc_runs"].append({"model": name, "distinct_states": res.get("distinct", 0),
                                     "states_generated": res.get("generated", 0),
                                     "wall_s": round(res.get("wall_s", 0), 2), "note": note})

    def case(self, key, nontrivial=True, n=1):
        """count one replayed/validated case; key identifies the case for distinctness"""
        self.cov["evaluations"] += n
        if nontrivial:
            h = hashlib.md5(json.dumps(key, sort_keys=True, default=str).encode()).digest()[:8]
            self._distinct.add(h)

    def sample(self, s, limit=6):
        if len(self.cov["samples"]) < limit:
            self.cov["samples"].append(s)

    def write(self, violations=0):
        self.cov["distinct_nontrivial"] = len(self._distinct)
        self.d["violations"] = int(violations)
        self.d["wall_s"] = round(time.time() - self.t0, 2)
        edir = os.environ.get("VERIF_EVIDENCE_DIR") or os.path.join(VERIF, "evidence")
        os.makedirs(edir, exist_ok=True)
        path = os.path.join(edir, self.d["property_id"] + ".json")
        with open(path, "w") as f:
            json.dump(self.d, f, indent=1, default=str)
        return path


# ----------------------------------------------------------------------------- numbers
def frac(x):
    """[n, d] from TLC -> Fraction"""
    return Fraction(int(x[0]), int(x[1]))


def close(a, b, tol=1e-9):
    if isinstance(a, float) and math.isnan(a):
        return isinstance(b, float) and math.isnan(b)
    return abs(float(a) - float(b)) <= tol


def fl_enc(x):
    """encode a python float for TLC: [cls, p, q, m9]; p/q exact rational when small"""
    x = float(x)
    if math.isnan(x):
        return {"cls": "nan", "p": 0, "q": 1, "m9": 0, "ex": False}
    if math.isinf(x):
        return {"cls": "inf", "p": 1 if x > 0 else -1, "q": 1, "m9": 0, "ex": False}
    fr = Fraction(x).limit_denominator(10000)
    ex = abs(float(fr) - x) <= 1e-12 and abs(fr.numerator) < 2 ** 30
    m9 = max(-2 * 10 ** 9, min(2 * 10 ** 9, int(round(x * 10 ** 9))))
    return {"cls": "fin", "p": fr.numerator if ex else 0, "q": fr.denominator if ex else 1,
            "m9": m9, "ex": bool(ex)}


def seed_from_env(default=0):
    try:
        return int(os.environ.get("VERIF_SEED", default))
    except ValueError:
        return default
