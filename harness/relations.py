"""Recording pairs of outcomes  a = f(x), b = f(T(x))  for the relation tables of Relations.tla and
having Trace_Rel judge them.  The harness performs the calls and the transformations; which
positions must be equal / exchanged / ordered is stated in TLA+."""
import math
import struct
from collections.abc import Mapping

import numpy as np

from . import trace


def enc(x):
    x = float(x)
    n = struct.unpack("<Q", struct.pack("<d", x))[0]
    rec = {"b1": n >> 42, "b2": (n >> 21) & 0x1FFFFF, "b3": n & 0x1FFFFF}
    if math.isnan(x):
        rec.update(c="nan", m9=0, m6=0, b1=0, b2=0, b3=0)
    elif math.isinf(x):
        rec.update(c="inf", m9=0, m6=0)
    else:
        rec.update(c="fin", m9=max(-2 * 10 ** 9, min(2 * 10 ** 9, int(round(x * 10 ** 9)))),
                   m6=max(-2 * 10 ** 9, min(2 * 10 ** 9, int(round(x * 10 ** 6)))))   # for values beyond +-2
    return rec


def flat(res):
    """flatten a metric result (scalar, tuple, dict, arrays) into a list of floats, in order"""
    out = []

    def go(v):
        if isinstance(v, Mapping):
            for x in v.values():
                go(x)
        elif isinstance(v, (list, tuple)):
            for x in v:
                go(x)
        elif isinstance(v, np.ndarray):
            for x in v.ravel().tolist():
                go(x)
        else:
            out.append(float(v))
    go(res)
    return out


def call(fn, *a, **k):
    try:
        return "ok", flat(fn(*a, **k))
    except Exception as ex:  # noqa
        return type(ex).__name__, []


class RelLog:
    def __init__(self):
        self.events = []
        self.meta = {}

    def add(self, rel, fn, a, b, meta, opt=None):
        """a, b: results of call(); meta: JSON-able description sufficient to replay"""
        tid = len(self.events) + 1
        ev = {"tid": tid, "rel": rel, "fn": fn, "aexc": a[0], "bexc": b[0],
              "a": [enc(x) for x in a[1]], "b": [enc(x) for x in b[1]], "opt": opt or []}
        self.events.append(ev)
        self.meta[tid] = (fn, rel, meta, a, b)
        return tid

    def judge(self):
        """-> list of (fn, rel, clause, meta, a, b), TLC stats"""
        if not self.events:
            return [], {"generated": 0, "distinct": 0, "wall_s": 0}
        rejects, st = trace.validate_par("Trace_Rel", self.events)
        out = []
        for rj in rejects:
            fn, rel, meta, a, b = self.meta[rj["tid"]]
            out.append((fn, rel, rj["clause"], meta, a, b))
        return out, st
